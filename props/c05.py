# C05 — constants carry the C compiler's value in a type that can hold it.
#  theorems: C05/Properties.v (macro kind holds the value; cexpr-style evaluation agrees with C on benign
#            expressions; refutation witnesses for unsigned wrap / division by zero)
#  tie 1: C05/Model.c_eval vs clang (type and value of every generated macro expression)
#  tie 2: C05/Model.rs_eval + macro_kind vs the constants bindgen really emits
#  property check on the implementation: emitted value == clang's value, emitted type holds it with the same sign
#  enumerators under all enum styles and const variables: sampled against clang (no model)
import os, re, sys, json, tempfile, shutil
from concurrent.futures import ThreadPoolExecutor
import vlib
from vlib import sh, sh2, ROOT, REPO, COQ, CACHE, TieBroken

UN = {"UPlus": "+", "UNeg": "-", "UNot": "~"}
BIN = {"BAdd": "+", "BSub": "-", "BMul": "*", "BDiv": "/", "BRem": "%", "BShl": "<<", "BShr": ">>", "BAnd": "&", "BOr": "|", "BXor": "^"}
EDGE_VALS = [0, 1, 2, 3, 7, 8, 15, 16, 31, 32, 33, 63, 64, 100, 127, 128, 255, 256, 1000, 32767, 32768, 65535, 65536, 2**31 - 1, 2**31, 2**32 - 1, 2**32, 2**63 - 1, 2**63, 2**64 - 1]


def gen_lit(r):
    v = r.choice(EDGE_VALS) if r.random() < 0.6 else r.randrange(0, 2 ** r.choice([4, 8, 16, 31, 32, 40, 63, 64]))
    rad = r.choice(["Dec", "Dec", "Hex", "Hex", "Oct", "Bin"])
    u = r.random() < 0.25
    l = r.random() < 0.2
    return ("Lit", rad, v, u, l)


def gen_expr(r, depth):
    if depth == 0 or r.random() < 0.25:
        return gen_lit(r)
    if r.random() < 0.25:
        return ("Un", r.choice(list(UN)), gen_expr(r, depth - 1))
    op = r.choice(list(BIN))
    a = gen_expr(r, depth - 1)
    if op in ("BShl", "BShr"):
        b = ("Lit", "Dec", r.choice([0, 1, 2, 4, 7, 8, 16, 24, 31, 32, 33, 63, 64]), False, False) if r.random() < 0.85 else gen_expr(r, depth - 1)
    elif op in ("BDiv", "BRem"):
        b = ("Lit", r.choice(["Dec", "Hex"]), r.choice([1, 2, 3, 7, 10, 16, 255, 2**31, 2**32 - 1]), r.random() < 0.3, False) if r.random() < 0.9 else gen_expr(r, depth - 1)
    else:
        b = gen_expr(r, depth - 1)
    return ("Bin", op, a, b)


def c_text(e):
    if e[0] == "Lit":
        _, rad, v, u, l = e
        s = {"Dec": "%d" % v, "Hex": "0x%X" % v, "Oct": "0%o" % v if v else "00", "Bin": "0b" + bin(v)[2:]}[rad]
        return s + ("u" if u else "") + ("l" if l else "")
    if e[0] == "Un":
        return "(%s %s)" % (UN[e[1]], c_text(e[2]))
    return "(%s %s %s)" % (c_text(e[2]), BIN[e[1]], c_text(e[3]))


def coq_term(e):
    if e[0] == "Lit":
        _, rad, v, u, l = e
        return "(Lit %s %d %s %s)" % ("RBin" if rad == "Bin" else rad, v, "true" if u else "false", "true" if l else "false")
    if e[0] == "Un":
        return "(Un %s %s)" % (e[1], coq_term(e[2]))
    return "(Bin %s %s %s)" % (e[1], coq_term(e[2]), coq_term(e[3]))


def has_zero_div_risk(e):
    if e[0] == "Bin":
        if e[1] in ("BDiv", "BRem") and not (e[3][0] == "Lit" and e[3][2] != 0):
            return True
        return has_zero_div_risk(e[2]) or has_zero_div_risk(e[3])
    if e[0] == "Un":
        return has_zero_div_risk(e[2])
    return False


CLANG_W = ["-Werror=integer-overflow", "-Werror=shift-count-overflow", "-Werror=shift-count-negative", "-Werror=division-by-zero",
           "-Werror=shift-negative-value", "-Werror=shift-overflow", "-Werror=shift-sign-overflow", "-Werror=implicitly-unsigned-literal", "-Wno-unused-value",
           "-Werror=constant-conversion", "-Wno-gnu-binary-literal"]


def clang_values(names_exprs, tmp, tag):
    """clang's (type, value) for each macro, or None when it is not a well-defined constant expression"""
    hdr = os.path.join(tmp, "m_%s.h" % tag)
    with open(hdr, "w") as f:
        for n, e in names_exprs:
            f.write("#define %s %s\n" % (n, c_text(e)))
    probe = os.path.join(tmp, "p_%s.c" % tag)
    with open(probe, "w") as f:
        f.write('#include "m_%s.h"\n' % tag)
        for i, (n, e) in enumerate(names_exprs):
            f.write("static const unsigned long long v_%d = (unsigned long long)(%s);\n" % (i, n))
    rc, o, e = sh2(["clang", "-std=gnu11", "-fsyntax-only", "-ferror-limit=0"] + CLANG_W + [probe], cwd=tmp, timeout=300)
    bad = set()
    # errors/warnings-as-errors are reported at the macro's use line (the probe line) or inside the header with "expanded from"
    for m in re.finditer(r"p_%s\.c:(\d+):\d+: error" % re.escape(tag), e):
        bad.add(int(m.group(1)) - 2)
    prog = os.path.join(tmp, "r_%s.c" % tag)
    with open(prog, "w") as f:
        f.write('#include <stdio.h>\n#include "m_%s.h"\n' % tag)
        f.write('#define T(x) _Generic((x), int: "i32", unsigned int: "u32", long: "i64", unsigned long: "u64", long long: "i64", unsigned long long: "u64", default: "?")\n')
        f.write("int main(void) {\n")
        for i, (n, ex) in enumerate(names_exprs):
            if i in bad:
                continue
            f.write('  printf("%d %%s %%llu\\n", T(%s), (unsigned long long)(%s));\n' % (i, n, n))
        f.write("  return 0; }\n")
    exe = os.path.join(tmp, "r_%s" % tag)
    rc, o, e2 = sh2(["clang", "-std=gnu11", "-w", "-o", exe, prog], cwd=tmp, timeout=300)
    if rc != 0:
        raise TieBroken("clang-probe", e2[-1500:])
    rc, o, e3 = sh2([exe], timeout=60)
    res = {}
    for line in o.splitlines():
        i, t, v = line.split()
        v = int(v)
        bits = 32 if t in ("i32", "u32") else 64
        if t.startswith("i") and v >= 2 ** 63:
            v -= 2 ** 64
        if t == "i32" and v >= 2 ** 31:
            v -= 2 ** 32
        res[int(i)] = (t, v)
    return hdr, [res.get(i) if i not in bad else None for i in range(len(names_exprs))]


RTY = {"i8": (True, 8), "i16": (True, 16), "i32": (True, 32), "i64": (True, 64), "u8": (False, 8), "u16": (False, 16), "u32": (False, 32), "u64": (False, 64)}


def bindgen_consts(bindgen, hdr, flags=()):
    rc, o, e = sh2([bindgen, hdr, "--no-layout-tests"] + list(flags), timeout=300)
    consts = {}
    for m in re.finditer(r"pub const (\w+): (\w+) = (-?\d+);", o):
        consts[m.group(1)] = (m.group(2), int(m.group(3)))
    return rc, consts, e


def run(ck):
    quick = ck.tier == "quick"
    n = 1500 if quick else 30000
    ck.coverage["rule"] = ("macro bodies from a typed integer expression grammar (dec/hex/oct/bin literals at every 2^k boundary with u/l suffixes; unary + - ~; binary + - * / % << >> & | ^; depth <= 3), "
                           "each evaluated by clang (type via _Generic, value; undefined behaviour = rejected by -Werror=...), by bindgen, and by both Coq models; options {default, --fit-macro-constant-types, "
                           "--default-macro-constant-type signed}; zero divisors in separate one-macro headers; enums under all styles and const variables sampled; non-trivial = not a bare literal; distinct by text")
    ck.trusted += ["clang 14 (LP64) as the C semantics oracle; undefined/ill-formed constant expressions are recognised through -Werror=integer-overflow,shift-*,division-by-zero",
                   "C05/Model.rs_eval transcribes cexpr 0.6 (Wrapping<i64> arithmetic, shift amount masked to 6 bits, division by zero panics) — tied to the real tool by comparing emitted constants",
                   "modelled, not verified: cexpr's tokenizer/parser (precedence, casts, sizeof, ?:, comparisons are not generated), floating and string constants (sampled against clang text only), parse_macro_clang_fallback (off by default)"]
    vlib.coq_check_properties(ck, "theories/C05/Properties.v")
    ok, out = vlib.coq_make(["theories/C05/Model.vo"])
    if not ok:
        raise TieBroken("coq-build:C05", out)
    bindgen = vlib.build_cli()
    r = ck.rng
    tmp = tempfile.mkdtemp(prefix="c05_", dir=CACHE)
    try:
        corpus = [("Un", "UNot", ("Lit", "Dec", 0, True, False)),
                  ("Bin", "BAdd", ("Lit", "Hex", 0xFFFFFFFF, False, False), ("Lit", "Dec", 1, False, False)),
                  ("Bin", "BDiv", ("Un", "UNeg", ("Lit", "Dec", 1, False, False)), ("Lit", "Dec", 2, True, False)),
                  ("Bin", "BOr", ("Bin", "BShl", ("Lit", "Dec", 1, False, False), ("Lit", "Dec", 4, False, False)), ("Lit", "Dec", 3, False, False)),
                  ("Bin", "BShl", ("Lit", "Dec", 1, False, False), ("Lit", "Dec", 31, False, False)),
                  ("Bin", "BShl", ("Lit", "Dec", 1, True, False), ("Lit", "Dec", 31, False, False)),
                  ("Lit", "Dec", 2**63, False, False), ("Lit", "Hex", 2**64 - 1, False, False), ("Lit", "Dec", 2**32, False, False)]
        exprs = corpus + [gen_expr(r, r.choice([0, 1, 2, 3])) for _ in range(n)]
        safe = [(i, e) for i, e in enumerate(exprs) if not has_zero_div_risk(e)]
        risky = [(i, e) for i, e in enumerate(exprs) if has_zero_div_risk(e)]
        names = [("M_%d" % i, e) for i, e in safe]
        hdr, cvals = clang_values(names, tmp, "main")
        variants = [("default", []), ("fit", ["--fit-macro-constant-types"]), ("signed", ["--default-macro-constant-type", "signed"]),
                    ("fit+signed", ["--fit-macro-constant-types", "--default-macro-constant-type", "signed"])]
        outs = {}
        for vn, fl in variants:
            rc, consts, err = bindgen_consts(bindgen, hdr, fl)
            if rc != 0:
                ck.violation("C05-bindgen-failed", "bindgen fails on a header of integer macros that clang accepts", {"flags": fl, "stderr": err[-800:], "header_head": open(hdr).read()[:800]})
                consts = {}
            outs[vn] = consts
        # ---- Coq: both models on every expression
        shard = 250
        bodies = []
        for a in range(0, len(names), shard):
            terms = ";\n".join(coq_term(e) for _, e in names[a:a + shard])
            bodies.append("""From Coq Require Import ZArith NArith List Bool.
From BG Require Import C05.Model.
Import ListNotations. Open Scope Z_scope.
Definition es : list expr := [
%s
].
Definition enc_c (e : expr) : list Z := match c_eval e with Some (t, v) => [1; (if signed t then 1 else 0); Z.of_N (bits t); v] | None => [0] end.
Definition enc_rs (e : expr) : list Z := match rs_eval e with RsInt v => [1; v] | RsPanic => [2] | RsReject => [3] end.
Definition kcode (k : ikind) : Z := match k with I8 => 18 | I16 => 116 | I32 => 132 | I64 => 164 | U8 => 8 | U16 => 16 | U32 => 32 | U64 => 64 end.
Definition enc_k (e : expr) : list Z := match rs_eval e with RsInt v => [kcode (macro_kind false false v); kcode (macro_kind false true v); kcode (macro_kind true false v); kcode (macro_kind true true v)] | _ => [] end.
Eval vm_compute in map (fun e => [enc_c e; enc_rs e; enc_k e; [if benign e then 1 else 0]]) es.
""" % terms)
        model = []
        for rc, out in vlib.coq_eval_many("c05_m", bodies):
            if rc != 0:
                raise TieBroken("coq-eval:C05", out[-2500:])
            m = re.search(r"=\s*(\[.*\])\s*:\s*list", out, re.S)
            try:
                model += json.loads(re.sub(r"\s+", " ", m.group(1)).replace(";", ",").replace("%Z", ""))
            except Exception:
                raise TieBroken("coq-eval:C05-parse", out[-1500:])
        if len(model) != len(names):
            raise TieBroken("coq-eval:C05-count", "%d vs %d" % (len(model), len(names)))
        kcode = {"i8": 18, "i16": 116, "i32": 132, "i64": 164, "u8": 8, "u16": 16, "u32": 32, "u64": 64}
        tie_c = tie_rs = tie_k = 0
        bad_c, bad_rs, bad_k = [], [], []
        for (name, e), cv, (mc, mrs, mk, mb) in zip(names, cvals, model):
            ck.evaluations += 1
            if e[0] != "Lit":
                ck.nontrivial.add(c_text(e))
            # tie 1: clang vs c_eval
            if cv is None:
                okc = mc == [0]
            elif mc == [0]:
                # undefined per C11 (signed overflow in a sub-expression) but folded silently by clang: clang's
                # warnings only flag the outermost folded operation, so this direction of the tie is not decidable here
                okc = True
                ck.count("undefined_per_model_folded_by_clang")
                cv = None
            else:
                okc = mc[0] == 1 and (mc[1] == 1) == cv[0].startswith("i") and mc[2] == int(cv[0][1:]) and mc[3] == cv[1]
            tie_c += okc
            if not okc:
                bad_c.append({"macro": c_text(e), "clang": cv, "model": mc})
            # tie 2: bindgen vs rs_eval / macro_kind
            got = outs["default"].get(name)
            if mrs[0] == 1:
                okr = got is not None and got[1] == mrs[1]
            else:
                okr = got is None
            tie_rs += okr
            if not okr:
                bad_rs.append({"macro": c_text(e), "bindgen": got, "model": mrs})
            if mrs[0] == 1 and got is not None:
                ks = [outs[v].get(name, (None,))[0] for v in ("default", "fit", "signed", "fit+signed")]
                okk = [kcode.get(k) for k in ks] == mk
                tie_k += okk
                if not okk:
                    bad_k.append({"macro": c_text(e), "value": mrs[1], "bindgen_types": ks, "model": mk})
            # ---- the property on the implementation
            for vn in ("default", "fit", "signed", "fit+signed"):
                g = outs[vn].get(name)
                if g is None or cv is None:
                    continue   # omitted macro, or not a defined C constant: nothing to compare
                ty, val = g
                sg, bits = RTY.get(ty, (True, 64))
                lo, hi = (-(2 ** (bits - 1)), 2 ** (bits - 1) - 1) if sg else (0, 2 ** bits - 1)
                if val != cv[1]:
                    unsigned_involved = "u" in c_text(e) or cv[0].startswith("u")
                    cls = "C05-macro-untyped-eval" if unsigned_involved or mb == [0] else "C05-macro-value"
                    ck.violation(cls, "macro constant differs from the C value: bindgen evaluates the body in untyped 64-bit arithmetic",
                                 {"macro": "#define M %s" % c_text(e), "clang": {"type": cv[0], "value": cv[1]}, "bindgen": {"type": ty, "value": val}, "flags": vn})
                elif not (lo <= val <= hi) or (cv[1] < 0 and not sg):
                    ck.violation("C05-macro-type", "emitted type cannot hold the value with its sign", {"macro": c_text(e), "clang": cv, "bindgen": g, "flags": vn})
        ck.coverage["traces_validated_against_impl"] = tie_rs
        ck.obligation("correspondence:clang==C05/Model.c_eval", not bad_c, "%d macros, %d mismatches" % (len(names), len(bad_c)))
        ck.obligation("correspondence:bindgen constants==C05/Model.rs_eval", not bad_rs, "%d macros, %d mismatches" % (len(names), len(bad_rs)))
        ck.obligation("correspondence:bindgen macro types==C05/Model.macro_kind", not bad_k, "%d typed constants x 4 option sets, %d mismatches" % (tie_k + len(bad_k), len(bad_k)))
        for nm, bad in (("clang vs C05/Model.c_eval", bad_c), ("bindgen vs C05/Model.rs_eval", bad_rs), ("bindgen vs C05/Model.macro_kind", bad_k)):
            if bad:
                ck.broken("correspondence", nm, json.dumps(bad[:8], indent=1))
        ck.notes.update({"macros": len(names), "clang_undefined": sum(1 for c in cvals if c is None), "benign": sum(1 for m in model if m[3] == [1])})
        ck.sample({"macro": "#define M_3 " + c_text(names[3][1]), "clang": cvals[3], "bindgen": outs["default"].get("M_3"), "model_c_eval": model[3][0], "model_rs_eval": model[3][1]})
        # ---- zero divisors: one header each
        zer = [("Bin", "BDiv", ("Lit", "Dec", 1, False, False), ("Lit", "Dec", 0, False, False)),
               ("Bin", "BRem", ("Lit", "Dec", 7, False, False), ("Bin", "BSub", ("Lit", "Dec", 2, False, False), ("Lit", "Dec", 2, False, False)))] + [e for _, e in risky[:6 if quick else 60]]
        for zi, e in enumerate(zer):
            h = os.path.join(tmp, "z%d.h" % zi)
            open(h, "w").write("#define Z_%d %s\nint keep_%d;\n" % (zi, c_text(e), zi))
            rc, o, err = sh2([bindgen, h], timeout=60)
            ck.evaluations += 1
            crashed = rc != 0 and ("panicked" in err or rc < 0 or rc == 101)
            rc2, o2, e2 = sh2(["clang", "-std=gnu11", "-fsyntax-only", "-Wno-division-by-zero", h], timeout=60)
            if crashed and rc2 == 0:
                ck.violation("C05-macro-div-zero-abort", "a macro whose body divides by zero (clang accepts the header) makes bindgen panic instead of omitting the constant",
                             {"header": open(h).read(), "stderr": err[-400:]})
        enums_and_vars(ck, bindgen, tmp, quick)
    finally:
        shutil.rmtree(tmp, ignore_errors=True)


def enums_and_vars(ck, bindgen, tmp, quick):
    r = ck.rng
    styles = [[], ["--default-enum-style", "consts"], ["--default-enum-style", "moduleconsts"], ["--default-enum-style", "newtype"],
              ["--default-enum-style", "bitfield"], ["--default-enum-style", "rust"], ["--default-enum-style", "newtype_global"]]
    vals_pool = [0, 1, -1, 2, 5, 127, 128, 255, 256, -128, -129, 32767, 65536, 2**31 - 1, -2**31, 2**31, 2**32 - 1, 2**32, -2**33, 2**63 - 1, -2**63]
    for case in range(6 if quick else 60):
        names, lines = [], []
        k = r.randrange(1, 7)
        vs = [r.choice(vals_pool) for _ in range(k)]
        if r.random() < 0.3 and k > 1:
            vs[-1] = vs[0]     # duplicate value
        if any(v >= 2**63 for v in vs) and any(v < 0 for v in vs):
            vs = [v for v in vs if v < 2**63]
        body = ", ".join("E%d_%d = %s" % (case, i, ("%dLL" % v if abs(v) > 2**31 else str(v)).replace("-9223372036854775808LL", "(-9223372036854775807LL-1)")) for i, v in enumerate(vs))
        h = os.path.join(tmp, "e%d.h" % case)
        open(h, "w").write("enum en%d { %s };\nenum en%d var%d;\n" % (case, body, case, case))
        # clang's values and underlying type
        prog = os.path.join(tmp, "e%d.c" % case)
        open(prog, "w").write('#include <stdio.h>\n#include "e%d.h"\nint main(void){ enum en%d x = (enum en%d)-1; printf("%%zu %%d\\n", sizeof(enum en%d), x < 0);\n%s return 0; }\n' % (
            case, case, case, case, "".join('printf("%%lld\\n", (long long)E%d_%d);' % (case, i) for i in range(len(vs)))))
        exe = os.path.join(tmp, "e%d" % case)
        rc, o, e = sh2(["clang", "-std=gnu11", "-w", "-o", exe, prog], cwd=tmp, timeout=60)
        if rc != 0:
            ck.count("enum_case_rejected_by_clang")
            continue
        rc, o, e = sh2([exe], timeout=30)
        ls = o.split("\n")
        size, signed = int(ls[0].split()[0]), ls[0].split()[1] == "1"
        cvals = [int(x) for x in ls[1:1 + len(vs)]]
        for st in styles:
            rc, out, err = sh2([bindgen, h, "--no-layout-tests"] + st, timeout=60)
            ck.evaluations += 1
            ck.nontrivial.add(("enum", body, " ".join(st)))
            if rc != 0:
                ck.violation("C05-enum-bindgen-failed", "bindgen fails on an enum clang accepts", {"header": open(h).read(), "style": st, "stderr": err[-400:]})
                continue
            for i, cv in enumerate(cvals):
                nm = "E%d_%d" % (case, i)
                # constant forms:  pub const [en_]NAME: T = [T(]V[)];   rust enum form:  NAME = V,
                m = re.search(r"pub const (?:\w*?_)?%s: [\w:]+ = (?:[\w:]+\()?\s*(-?\d+)\s*\)?;" % nm, out) or re.search(r"\b%s = (-?\d+)," % nm, out)
                if not m:
                    if i > 0 and cv in cvals[:i] and "rust" in " ".join(st):
                        continue    # duplicate value in a Rust enum becomes an associated constant alias
                    if re.search(r"pub const %s: \w+ = \w+::\w+;" % nm, out) or re.search(r"%s: \w+ = \w+::\w+" % nm, out):
                        continue
                    ck.violation("C05-enum-variant-missing", "an enumerator is missing from the bindings", {"header": open(h).read(), "style": st, "enumerator": nm, "output": out[-800:]})
                    continue
                gv = int(m.group(1))
                bits = size * 8
                norm = lambda x: x % (2 ** bits)
                if norm(gv) != norm(cv) or ((gv < 0) != (cv < 0) and signed):
                    ck.violation("C05-enum-value", "enumerator value differs from the C compiler's", {"header": open(h).read(), "style": st, "enumerator": nm, "clang": cv, "bindgen": gv, "underlying": {"size": size, "signed": signed}})
    # const-qualified variables (integer, char, float, string): compare with clang-printed values
    h = os.path.join(tmp, "vars.h")
    open(h, "w").write('const int v_i = 3 + 4 * 5;\nconst unsigned v_u = ~0u;\nconst long long v_ll = -9223372036854775807LL - 1;\nconst char v_c = \'A\';\nconst double v_d = 1.5e10;\n'
                       'const float v_f = 0.1f;\nconst char *const v_s = "a\\tb\\"c";\nconst unsigned long long v_ull = 18446744073709551615ULL;\nconst short v_sh = -3;\nconst _Bool v_b = 1;\n')
    rc, out, err = sh2([bindgen, h, "--no-layout-tests"], timeout=60)
    ck.evaluations += 1
    expect = {"v_i": "23", "v_u": "4294967295", "v_ll": "-9223372036854775808", "v_c": "65", "v_d": "15000000000.0", "v_ull": "18446744073709551615", "v_sh": "-3", "v_b": "true"}
    for k, v in expect.items():
        m = re.search(r"pub const %s: [\w:]+ = ([^;]+);" % k, out)
        if not m or m.group(1).replace("_", "").strip() != v:
            ck.violation("C05-const-var:" + k, "const variable does not carry the C value", {"header": open(h).read(), "name": k, "expected": v, "emitted": m.group(0) if m else None})
    ck.sample({"const_vars_checked": sorted(expect)})
    # corner constants: 128-bit integers, long double, character literals with the sign bit, wide literals
    h = os.path.join(tmp, "corner.h")
    open(h, "w").write("static const unsigned __int128 V128 = ((unsigned __int128)1) << 100;\nstatic const __int128 N128 = -5;\nstatic const __int128 P128 = 7;\n"
                       "static const long double LD = 0.5L;\n#define CH_HI '\\xff'\n#define CH_LO 'a'\n#define WCH L'a'\nstatic const signed char SC = -2;\nstatic const unsigned char UC = 200;\n")
    rc, out, err = sh2([bindgen, h, "--no-layout-tests"], timeout=60)
    ck.evaluations += 1
    ck.nontrivial.add("corner-constants")
    data = {"header": open(h).read(), "emitted": re.findall(r"pub const [^;]*;", out)}
    def emitted_const(k):
        m = re.search(r"pub const %s: ([\w:]+) = ([^;]+);" % k, out)
        return (m.group(1), m.group(2).strip()) if m else None
    # C: V128 = 2^100, N128 = -5, P128 = 7, LD = 0.5, CH_HI = -1 (int; char is signed here), CH_LO = 97, WCH = 97, SC = -2, UC = 200
    e = emitted_const("V128")
    if e and re.sub(r"[_a-z0-9]*$", "", e[1]) != str(2 ** 100) and not e[1].startswith(str(2 ** 100)):
        ck.violation("C05-const-var:int128-value", "a 128-bit const variable does not carry the C value (C: 2^100; a constant that cannot be evaluated faithfully must be omitted)", dict(data, name="V128", emitted_value=e))
    for k, want in (("N128", -5), ("P128", 7), ("SC", -2), ("UC", 200), ("CH_LO", 97), ("WCH", 97)):
        e = emitted_const(k)
        if e:
            mm = re.match(r"-?\d+", e[1])
            if not mm or int(mm.group(0)) != want:
                ck.violation("C05-const-var:" + k, "a constant does not carry the C value", dict(data, name=k, expected=want, emitted_value=e))
    e = emitted_const("CH_HI")
    if e:
        mm = re.match(r"-?\d+", e[1])
        if mm and int(mm.group(0)) != -1:
            ck.violation("C05-macro:char-literal-sign", "the character constant '\\xff' has the value -1 in C (int, char is signed on this target); the emitted constant is %s: %s" % e, dict(data, name="CH_HI", expected=-1, emitted_value=e))
    e = emitted_const("LD")
    if e and not re.match(r"f(32|64|128)$|.*c_double|.*c_longdouble", e[0]):
        ck.violation("C05-const-var:long-double-type", "a long double constant is emitted with an integer type (`%s = %s`): not a type that can hold the value (rustc rejects it)" % e, dict(data, name="LD", emitted_value=e))
    float_family(ck, bindgen, tmp)


def float_family(ck, bindgen, tmp):
    """floating macros and const variables: the bit pattern rustc gives the emitted constant must be the one clang computes
    (both sides executed; values around every formatting boundary: signs, huge / tiny / subnormal magnitudes, exponent forms, suffixes)"""
    r = ck.rng
    lits = ["0.0", "-0.0", "1.0", "-1.0", "0.1", "-0.1", "1.5e10", "-1.5e10", "1e15", "1e16", "-1e16", "1e17", "-1e17", "9.999999e15", "1e-4", "1e-5", "-1e-5", "1e-6", "-1e-6", "-0.000001",
            "6.02214076e23", "-6.02214076e23", "1.7976931348623157e308", "-1.7976931348623157e308", "2.2250738585072014e-308", "-2.2250738585072014e-308", "4.9406564584124654e-324",
            "-4.9406564584124654e-324", "123456789.125", "-123456789.125", "3.0e0", "0x1.8p3", "-0x1.8p-3", "1e300", "-1e300", "1e-300", "-1e-300", ".5", "5.", "1e+2"]
    for _ in range(20):
        m = r.randrange(1, 10 ** 9)
        e = r.randrange(-320, 305)
        lits.append("%s%d.%de%d" % (r.choice(["", "-"]), m % 10, m // 10, e))
    names, h = [], ""
    for i, l in enumerate(lits):
        h += "#define FM%d %s\n" % (i, l if not l.startswith("-") else "(%s)" % l)
        h += "static const double fv%d = %s;\n" % (i, l)
        names += [("FM%d" % i, "f64"), ("fv%d" % i, "f64")]
        if abs(float.fromhex(l) if "0x" in l else float(l)) < 3e38 and "e-3" not in l:
            h += "static const float ff%d = %sf;\n" % (i, l if "." in l or "e" in l or "p" in l else l + ".0")
            names.append(("ff%d" % i, "f32"))
    d = os.path.join(tmp, "floats")
    os.makedirs(d)
    open(os.path.join(d, "f.h"), "w").write(h)
    csrc = '#include <stdio.h>\n#include <string.h>\n#include <stdint.h>\n#include "f.h"\nint main(void) {\n'
    for n, t in names:
        if t == "f64":
            csrc += '  { double v = %s; uint64_t b; memcpy(&b, &v, 8); printf("%s %%016llx\\n", (unsigned long long)b); }\n' % (n, n)
        else:
            csrc += '  { float v = %s; uint32_t b; memcpy(&b, &v, 4); printf("%s %%016llx\\n", (unsigned long long)b); }\n' % (n, n)
    csrc += "  return 0; }\n"
    open(os.path.join(d, "p.c"), "w").write(csrc)
    rc, o, e = sh2(["clang", "-std=gnu11", "-w", "-o", "p", "p.c"], cwd=d, timeout=120)
    if rc != 0:
        raise TieBroken("c05-float-probe", e[-800:])
    rc, cout, e = sh2(["./p"], cwd=d, timeout=60)
    cvals = dict(l.split() for l in cout.splitlines())
    rc, out, err = sh2([bindgen, os.path.join(d, "f.h"), "--no-layout-tests"], timeout=120)
    if rc != 0:
        ck.violation("C05-float-bindgen-failed", "bindgen fails on a header of floating constants", {"stderr": err[-500:]})
        return
    emitted = dict(re.findall(r"pub const (\w+): ([\w:]+) =", out))
    rs = "#![allow(warnings)]\n" + out + "\nfn main() {\n"
    for n, t in names:
        if n in emitted:
            rs += '    println!("%s {:016x}", (%s).to_bits() as u64);\n' % (n, n)
    rs += "}\n"
    open(os.path.join(d, "m.rs"), "w").write(rs)
    rc, o, e = sh2(["rustc", "--edition", "2021", "-A", "warnings", "-o", "m", "m.rs"], cwd=d, timeout=300)
    if rc != 0:
        ck.violation("C05-float-constants-do-not-compile", "the emitted floating constants are rejected by rustc", {"header": h[:1500], "rustc": re.findall(r"^error.*$", e, re.M)[:3]})
        return
    rc, rout, e = sh2(["./m"], cwd=d, timeout=60)
    rvals = dict(l.split() for l in rout.splitlines())
    for n, t in names:
        ck.evaluations += 1
        ck.nontrivial.add(("float", n, lits[int(re.sub(r"\D", "", n))]))
        if n not in rvals:
            continue       # omitted: allowed (a macro bindgen cannot evaluate must be left out)
        if emitted.get(n) not in ("f64", "f32") or (emitted[n] == "f32") != (t == "f32"):
            ck.violation("C05-float-type", "a floating constant is emitted with a type of another width", {"name": n, "literal": lits[int(re.sub(r"\D", "", n))], "emitted_type": emitted.get(n)})
        elif rvals[n] != cvals[n]:
            ck.violation("C05-float-value", "a floating constant does not carry the C compiler's value (bit patterns differ)",
                         {"name": n, "literal": lits[int(re.sub(r"\D", "", n))], "clang_bits": cvals[n], "rust_bits": rvals[n], "emitted": (re.search(r"pub const %s: [^;]*;" % n, out) or [None])[0]})
    ck.notes["float_constants_compared"] = len([n for n, _ in names if n in rvals])


def replay(ck, path):
    print(open(path).read())
    run(ck)
