# C02 — generated types match the C compiler's size, alignment and offsets.
#  theorems: C02/Properties.v (align_to, blob, StructLayoutTracker + repr(C) algorithm: natural layout theorem,
#            refutation/characterisation for over-aligned members)
#  tie: H3 trace (every StructLayoutTracker call of the real run) replayed by C02/Model.step inside Coq
#  end-to-end oracle: generated record types -> real bindgen -> rustc-measured size_of/align_of/offset_of! vs
#            clang-measured sizeof/_Alignof/offsetof; presentation options must not change any number
import os, re, sys, json, tempfile, shutil, collections
from concurrent.futures import ThreadPoolExecutor
import vlib, e2e
from vlib import sh, sh2, ROOT, REPO, COQ, CACHE, TieBroken

PRESENTATION = [[], ["--with-derive-hash", "--with-derive-partialeq", "--with-derive-eq", "--with-derive-default", "--impl-debug"],
                ["--no-derive-copy", "--no-derive-debug"], ["--default-enum-style", "rust", "--default-alias-style", "new_type"],
                ["--explicit-padding"], ["--enable-cxx-namespaces"], ["--default-non-copy-union-style", "manually_drop", "--rust-target", "1.64"],
                # unions as structs of markers plus a blob (form (b) of C02/Union.v), with and without explicit padding
                ["--disable-untagged-union"], ["--disable-untagged-union", "--explicit-padding"]]


def feature_group(rec):
    f = rec.features
    for special in ("complex-long-double", "over-aligned-typedef", "member-packed", "vector8", "explicit-padding-tail"):
        if special in f:
            return special
    if "packed" in f or "pragma-pack" in f:
        return "packed"
    if "member-aligned" in f or "type-aligned" in f:
        return "aligned-attr"
    if "bitfield" in f:
        return "bitfield"
    if "flexible-array" in f:
        return "flexible-array"
    return "plain"


def overaligned_gap(rec, cn):
    """a plain record in which a member aligned above 8 is preceded by padding that is not 8-byte regular"""
    c = cn.get(rec.name)
    if not c:
        return False
    end = 0
    for m in rec.members:
        if not m["name"] or m["bitfield"] or m["name"] not in c["offsets"]:
            return False
    return True


def run(ck):
    quick = ck.tier == "quick"
    ck.coverage["rule"] = ("generated struct/union types (scalars incl. long double and __int128, pointers, arrays, nested records, bit-field runs, packed / aligned(N) on types and members, "
                           "#pragma pack, flexible arrays) through the real bindgen; sizes, alignments and member offsets measured by rustc and by clang must coincide; 60% of the records are "
                           "'plain' (no attribute, no bit-field) and have no known finding; the same header under 9 presentation option sets (incl. --disable-untagged-union with and without --explicit-padding) must give identical numbers; non-trivial = >= 2 members; "
                           "distinct by record text")
    ck.trusted += ["clang 14 (x86_64 SysV) for sizeof/_Alignof/offsetof; rustc 1.95 for size_of/align_of/offset_of! of the emitted types (this also validates the repr(C) algorithm of C02/Model.v)",
                   "hook H3: StructLayoutTracker call trace",
                   "modelled, not verified: CompInfo::codegen's attribute decisions beyond the plain struct path and the two union forms (C02/Union.v), vtable/base handling — exercised end to end only; bit-field unit allocation is C03/Alloc.v"]
    proofs = os.path.exists(os.path.join(COQ, "theories", "C02", "Properties.v"))
    if proofs:
        vlib.coq_check_properties(ck, "theories/C02/Properties.v")
        vlib.coq_check_properties(ck, "theories/C02/UnionProperties.v")
        vlib.coq_check_properties(ck, "theories/C02/LowerProperties.v")
    else:
        ck.obligation("theories/C02/Properties.v", False, "missing")
        ck.broken("proof", "theories/C02/Properties.v", "file missing")
    bindgen = vlib.build_cli()
    r = ck.rng
    tmp = tempfile.mkdtemp(prefix="c02_", dir=CACHE)
    try:
        batches = []
        # corpus first: minimised shapes of past failures and of seeded changes
        corpus = []
        for i, (members, feats) in enumerate([
                (["short tag", "int : 0"], {"bitfield"}), (["int id", "long : 0"], {"bitfield"}), (["char c[3]", "int : 0"], {"bitfield", "array"}),
                (["char a", "int : 0"], {"bitfield"}), (["int a", "char b", "long double c"], set()), (["char c", "long double a[2]"], {"array"}),
                (["long a", "char b", "__int128 c", "char d"], set()), (["char a", "short b", "char c", "int d", "char e", "double f"], set()),
                (["int a : 3", "int : 0", "char b"], {"bitfield"}), (["double d", "char c", "short : 0"], {"bitfield"})]):
            rec = e2e.Rec("K%d" % i)
            for j, m in enumerate(members):
                nm = re.match(r".*?(\w+)(\[.*\])?$", m.split(":")[0].strip())
                named = ":" not in m or not m.split(":")[0].strip().endswith(("int", "long", "short"))
                bf = None
                if ":" in m:
                    base = m.split(":")[0].split()[0]
                    bf = (base if base in ("int", "long", "short", "char") else "int", int(m.split(":")[1]))
                rec.members.append({"name": (nm.group(1) if named else None), "decl": m, "bitfield": bf, "anon": not named})
            rec.features = set(feats)
            corpus.append(rec)
        batches.append((-1, False, corpus, "\n".join(x.text() for x in corpus)))
        # every typedef name of <stdint.h> / <stddef.h> / <sys/types.h> / <wchar.h> / <uchar.h> as a member (bindgen maps several of them to
        # Rust primitives BY NAME, whatever the platform's definition): each between two chars so that width and alignment both show
        names = ["int8_t", "int16_t", "int32_t", "int64_t", "uint8_t", "uint16_t", "uint32_t", "uint64_t", "int_least8_t", "int_least16_t", "int_least32_t", "int_least64_t",
                 "uint_least8_t", "uint_least16_t", "uint_least32_t", "uint_least64_t", "int_fast8_t", "int_fast16_t", "int_fast32_t", "int_fast64_t", "uint_fast8_t", "uint_fast16_t",
                 "uint_fast32_t", "uint_fast64_t", "intmax_t", "uintmax_t", "intptr_t", "uintptr_t", "size_t", "ssize_t", "ptrdiff_t", "wchar_t", "wint_t", "char16_t", "char32_t",
                 "off_t", "time_t", "pid_t", "mode_t", "max_align_t", "sig_atomic_t"]
        named = []
        for i in range(0, len(names), 6):
            rec = e2e.Rec("N%d" % (i // 6))
            for j, n in enumerate(names[i:i + 6]):
                rec.members.append({"name": "c%d" % j, "decl": "char c%d" % j, "bitfield": None, "anon": False})
                rec.members.append({"name": "m%d" % j, "decl": "%s m%d" % (n, j), "bitfield": None, "anon": False})
            rec.features = {"named-typedef"}
            named.append(rec)
        # shapes outside the random generator's grammar (each a known finding of the unchanged tree: see KNOWN_FINDINGS.jsonl)
        extra = []
        for nm, members, feat in (("X0", ["char c", "_Complex long double z"], "complex-long-double"), ("X1", ["char c", "_Complex float z", "char d"], "complex"),
                                  ("X2", ["char c", "_Complex double z"], "complex"), ("X3", ["aint8 a"], "over-aligned-typedef"), ("X4", ["char c", "aint8 a", "char d"], "over-aligned-typedef"),
                                  ("X5", ["char a", "int b __attribute__((packed))", "short c"], "member-packed")):
            rec = e2e.Rec(nm)
            for m in members:
                rec.members.append({"name": re.match(r".*?(\w+)(?: __attribute__.*)?$", m).group(1), "decl": m, "bitfield": None, "anon": False})
            rec.features = {feat}
            extra.append(rec)
        batches.append((-3, False, extra, "typedef int aint8 __attribute__((aligned(8)));\n" + "\n".join(x.text() for x in extra)))
        # members whose C alignment is above 8 while the Rust type spelled for them is less aligned (vector types -> arrays, over-aligned
        # scalar typedefs -> plain aliases), after every gap of 1..15 bytes
        vecs = []
        for gap in range(1, 16):
            for nm, decl, feat in (("V", "v4f v", "vector"), ("A", "aint16 v", "over-aligned-typedef16"), ("W", "v4f v[2]", "vector")):
                if nm == "W" and gap % 4 != 1:
                    continue
                rec = e2e.Rec("%s%d" % (nm, gap))
                rec.members = [{"name": "pre", "decl": "char pre[%d]" % gap, "bitfield": None, "anon": False}, {"name": "v", "decl": decl, "bitfield": None, "anon": False},
                               {"name": "t", "decl": "char t", "bitfield": None, "anon": False}]
                rec.features = {feat}
                vecs.append(rec)
        # 8-byte vectors of 4-byte lanes: C alignment 8, Rust spelling [f32; 2] (alignment 4), and no forced padding at alignment 8:
        # the known finding that C02/LowerProperties.v lowered_align8_refuted states
        for gap in (1, 3, 4, 5):
            rec = e2e.Rec("U%d" % gap)
            rec.members = [{"name": "pre", "decl": "char pre[%d]" % gap, "bitfield": None, "anon": False}, {"name": "v", "decl": "v2f v", "bitfield": None, "anon": False},
                           {"name": "t", "decl": "char t", "bitfield": None, "anon": False}]
            rec.features = {"vector8"}
            vecs.append(rec)
        batches.append((-4, False, vecs, "typedef float v4f __attribute__((vector_size(16)));\ntypedef float v2f __attribute__((vector_size(8)));\ntypedef int aint16 __attribute__((aligned(16)));\n" + "\n".join(x.text() for x in vecs)))
        batches.append((-2, True, named, "#include <stdint.h>\n#include <stddef.h>\n#include <sys/types.h>\n#include <wchar.h>\n#include <uchar.h>\n#include <signal.h>\n" + "\n".join(x.text() for x in named)))
        # unions of every alignment (1, 2, 4, 8, 16) through scalar / pointer / nested-record / array members, each also embedded after a char
        # and in an array: both union forms of C02/Union.v must give C's numbers (the marker-struct form is reached through the presentation
        # option sets below, and by default for the union holding a flexible-array struct) -- seed C02-4
        uni = []
        inner = e2e.Rec("UI0")
        inner.members = [{"name": "d", "decl": "double d", "bitfield": None, "anon": False}, {"name": "c", "decl": "char c", "bitfield": None, "anon": False}]
        uni.append(inner)
        for i, members in enumerate((["char a", "char b[3]"], ["short a", "char b[5]"], ["int a", "char b[6]", "float f"], ["double a", "int b"], ["long a", "char b[9]"],
                                     ["void *a", "short b"], ["long long a", "char b[3]"], ["struct UI0 a", "int b"], ["double a[2]", "char b[17]"],
                                     ["long double a", "char b"], ["int a", "char b[4]"], ["unsigned long a", "float b[3]"])):
            u = e2e.Rec("UN%d" % i, "union")
            u.members = [{"name": re.match(r".*?(\w+)(\[.*\])?$", m).group(1), "decl": m, "bitfield": None, "anon": False} for m in members]
            uni.append(u)
            h_ = e2e.Rec("UH%d" % i)
            h_.members = [{"name": "c", "decl": "char c", "bitfield": None, "anon": False}, {"name": "u", "decl": "union UN%d u" % i, "bitfield": None, "anon": False},
                          {"name": "t", "decl": "char t", "bitfield": None, "anon": False}, {"name": "arr", "decl": "union UN%d arr[2]" % i, "bitfield": None, "anon": False}]
            uni.append(h_)
        batches.append((-5, True, uni, "\n".join(x.text() for x in uni)))
        # records that END in a bit-field unit, generated with --explicit-padding: add_tail_padding and pad_struct must pad the tail once
        # (C02/Properties.v tail_padding_then_pad_struct_adds_nothing; repaired defect: the tail used to be padded twice)
        bft = []
        for i, members in enumerate((["long long a", "unsigned b : 3"], ["int a : 1"], ["char c", "int b : 5"], ["short s", "unsigned b : 3", "unsigned c2 : 9"],
                                     ["double d", "char c", "unsigned f : 1"], ["int a", "unsigned b : 17", "char t : 2"], ["long a", "short b : 9"])):
            rec = e2e.Rec("BT%d" % i)
            for m in members:
                nm = re.match(r".*?(\w+)\s*(?::\s*\d+)?$", m).group(1)
                bf = None
                if ":" in m:
                    base = m.split(":")[0].split()[0]
                    bf = (base if base in ("int", "long", "short", "char", "unsigned") else "int", int(m.split(":")[1]))
                rec.members.append({"name": nm, "decl": m, "bitfield": bf, "anon": False})
            rec.features = {"bitfield", "explicit-padding-tail"}
            bft.append(rec)
        batches.append((-6, False, bft, "\n".join(x.text() for x in bft)))
        for b in range(10 if quick else 150):
            plain = b % 5 != 4 and b % 5 != 3
            g = e2e.Gen(r, bitfields=not plain, attrs=not plain)
            hdr = g.header(20)
            batches.append((b, plain, g.recs, hdr))

        def one(bt):
            b, plain, recs, hdr = bt
            return bt, measure(bindgen, tmp, "b%d" % (b if b >= 0 else 9999 - b), recs, hdr, (["--allowlist-type", "N[0-9]+"] if b == -2 else ["--explicit-padding"] if b == -6 else []), trace=True)
        with ThreadPoolExecutor(max_workers=vlib.NCPU) as ex:
            results = list(ex.map(one, batches))
        traces = []
        for (b, plain, recs, hdr), (cn, per, trk) in results:
            if cn is None:
                raise TieBroken("clang-probe", str(per)[:500])
            traces += trk
            for rec in recs:
                ck.evaluations += 1
                if len(rec.members) >= 2:
                    ck.nontrivial.add(rec.text())
                judge(ck, rec, cn.get(rec.name), per.get(rec.name), hdr)
        ck.notes["tracker_trace_lines"] = len(traces)
        replay_traces(ck, traces)
        # ---- presentation invariance on plain batches
        # (the fixed union batch and the <stdint.h> batch first, then generated plain batches)
        plain_results = sorted([x for x in results if x[0][1]], key=lambda x: (x[0][0] >= 0, -x[0][0] if x[0][0] < 0 else x[0][0]))
        for (b, plain, recs, hdr), (cn, per, trk) in plain_results[:3 if quick else 30]:
            if b == -2:
                continue    # needs its own allowlist; measured once above
            base = {k: v for k, v in per.items() if isinstance(v, dict)}
            for oi, opts in enumerate(PRESENTATION[1:], start=1):
                cn2, per2, _ = measure(bindgen, tmp, "b%d_o%d" % (b, oi), recs, hdr, opts)
                for rec in recs:
                    ck.evaluations += 1
                    a, c = base.get(rec.name), per2.get(rec.name)
                    if isinstance(a, dict) and a != c:
                        ck.violation("C02-presentation:" + " ".join(opts[:2]), "a presentation option changes the layout of a generated type",
                                     {"record": rec.text(), "options": opts, "default_options": a, "with_options": c, "header": hdr if len(hdr) < 3000 else None})
        if results:
            (b, plain, recs, hdr), (cn, per, trk) = results[0]
            ck.sample({"record": recs[0].text(), "clang": cn.get(recs[0].name), "rustc": per.get(recs[0].name)})
            if trk:
                ck.sample({"tracker_trace": trk[:4]})
    finally:
        shutil.rmtree(tmp, ignore_errors=True)


def measure(bindgen, tmp, tag, recs, hdr, opts, trace=False):
    """clang numbers, and per record either the rustc numbers or ('rustc-error', msg) / ('bindgen-error', msg)"""
    h = os.path.join(tmp, "h_%s.h" % tag)
    open(h, "w").write(hdr)
    cn, err = e2e.c_probe(h, recs, tmp, tag)
    if cn is None:
        return None, err, []
    log = os.path.join(tmp, "log_%s" % tag)
    open(log, "w").close()
    rc, out, err = sh2([bindgen, h, "--no-layout-tests"] + opts, timeout=300, env={"BINDGEN_VERIF_LOG": log} if trace else None)
    trk = [l for l in open(log, errors="replace").read().splitlines() if l.startswith("TRK ")] if trace else []
    if rc != 0:
        return cn, {r_.name: ("bindgen-error", err[-300:]) for r_ in recs}, trk
    rn, err = e2e.rust_probe(out, recs, tmp, tag)
    if rn is not None:
        return cn, rn, trk
    # isolate: one record (with what it needs) at a time
    per = {}
    for rec in recs:
        rc, out1, err1 = sh2([bindgen, h, "--no-layout-tests", "--allowlist-type", "^%s$" % rec.name] + opts, timeout=120)
        if rc != 0:
            per[rec.name] = ("bindgen-error", err1[-300:])
            continue
        rn1, e1 = e2e.rust_probe(out1, [rec], tmp, tag + "_" + rec.name)
        per[rec.name] = rn1.get(rec.name) if rn1 is not None else ("rustc-error", "; ".join(e2e.rustc_errors(e1, 2)))
    return cn, per, trk


def judge(ck, rec, c, rres, hdr):
    grp = feature_group(rec)
    data = {"record": rec.text(), "features": sorted(rec.features), "clang": c, "header": hdr if len(hdr) < 2500 else "(record depends on earlier records of a 20-record batch)"}
    if c is None:
        return
    if isinstance(rres, tuple):
        kind, msg = rres
        code = (re.search(r"E\d{4}", msg) or [None])[0] if kind == "rustc-error" else None
        cls = "C02-%s:%s:%s" % (kind, code or "other", grp)
        has_bf = any(m["bitfield"] for m in rec.members)
        if (code == "E0133" and "__BindgenUnionField" in msg) or (rec.kind == "union" and has_bf and code in ("E0133", "E0054")) or (code == "E0054" and "cannot cast `u8` as `bool`" in msg):
            # a union with bit-fields that is not emitted as a Rust union: accessors call the unsafe __BindgenUnionField::as_ref / as_mut
            # outside an unsafe block and cast u8 to bool for _Bool fields
            cls = "C02-rustc-error:E0133:union-bitfield"
        elif code in ("E0277", "E0369") and re.search(r"doesn't implement|can't compare|cannot be applied", msg):
            cls = "C02-rustc-error:E0277:derive-over-packed-noncopy-member"
        ck.violation(cls, "the bindings for this record type do not compile, so its layout cannot be right (%s)" % msg[:120], dict(data, error=msg))
        return
    if rres is None:
        ck.violation("C02-type-missing:" + grp, "no Rust type was generated for this record", data)
        return
    if rres != c:
        what = "size" if rres["size"] != c["size"] else "align" if rres["align"] != c["align"] else "offset"
        cls = "C02-layout:%s" % grp
        if rec.kind == "union" and any(m["bitfield"] for m in rec.members):
            cls = "C02-layout:union-bitfield"
        if grp == "plain":
            cls += ":over-aligned-gap" if has_overaligned_gap(rec, c) else ":" + what
        ck.violation(cls, "size/alignment/offsets of the generated type differ from the C compiler's (%s)" % what, dict(data, rustc=rres))


def has_overaligned_gap(rec, c):
    # members in declaration order with C offsets; sizes unknown here, so use the next offset / struct size heuristically:
    # a gap exists before member k if some earlier member ends strictly before it; we only need: some member whose offset
    # is a multiple of 16 and whose predecessor's end (approximated by predecessor offset + 1) leaves a gap not multiple of 8
    offs = [c["offsets"][m["name"]] for m in rec.members if m["name"] in c["offsets"]]
    return c["align"] >= 16 and any(o % 16 == 0 and o > 0 for o in offs)


def replay_traces(ck, traces):
    """H3: every real tracker call replayed by the Coq model (needs C02/Model.v)"""
    if not os.path.exists(os.path.join(COQ, "theories", "C02", "Model.v")) or not traces:
        return
    ok, out = vlib.coq_make(["theories/C02/Model.vo"])
    if not ok:
        raise TieBroken("coq-build:C02/Model", out)
    # group by struct name (consecutive lines with the same name form one run)
    runs, cur, curname = [], [], None
    for l in traces:
        name = l.split(" ")[1]
        if name != curname and cur:
            runs.append(cur)
            cur = []
        curname = name
        cur.append(l)
    if cur:
        runs.append(cur)
    terms, metas = [], []
    for run_ in runs:
        t = trace_term(run_)
        if t:
            terms.append(t)
            metas.append(run_)
    shard = 150
    bodies = []
    for a in range(0, len(terms), shard):
        bodies.append("""From Coq Require Import NArith List Bool.
From BG Require Import C02.Model C02.Exec.
Import ListNotations. Open Scope N_scope.
Definition runs : list (bool * (bool * bool * bool * option (N * N)) * list (call * option sview * option (N * N))) := [
%s
].
Eval vm_compute in map (fun r => match r with (force, env, steps) => replay_mismatch_f force env steps end) runs.
""" % ";\n".join(terms[a:a + shard]))
    if not os.path.exists(os.path.join(COQ, "theories", "C02", "Exec.v")):
        return
    ok, out = vlib.coq_make(["theories/C02/Exec.vo"])
    if not ok:
        raise TieBroken("coq-build:C02/Exec", out)
    res = []
    for rc, out in vlib.coq_eval_many("c02_trk", bodies):
        if rc != 0:
            raise TieBroken("coq-eval:C02/trace", out[-2500:])
        ls = vlib.parse_coq_nlists(out)
        if not ls or ls[0] is None:
            raise TieBroken("coq-eval:C02/trace-parse", out[-1500:])
        res += ls[0]
    bad = [(metas[i], v) for i, v in enumerate(res) if v != 0]
    ck.coverage["traces_validated_against_impl"] = len(res) - len(bad)
    ck.obligation("correspondence:StructLayoutTracker trace==C02/Model.step", not bad, "%d tracker runs (%d calls), %d diverge" % (len(res), sum(len(m) for m in metas), len(bad)))
    if bad:
        ck.broken("correspondence", "StructLayoutTracker vs C02/Model.step", json.dumps([{"first_diverging_call": v, "trace": m[:12]} for m, v in bad[:4]], indent=1))


def opt_pair(s):
    m = re.match(r"Some\(\((\d+), (\d+)\)\)", s)
    return "(Some (%s, %s))" % (m.group(1), m.group(2)) if m else "None"


def trace_term(lines):
    """(env, [(call, expected state after, expected padding)])"""
    steps = []
    env = None
    pending_pad = None
    for li, l in enumerate(lines):
        head, call, st = [x.strip() for x in l.split("|")]
        # saw_field is logged before padding_field runs (and padding_field logs at entry), so when a padding blob is
        # emitted the logged state lacks padding_field's own updates: the state is then checked at the next call only
        skip_state = call.startswith("saw_field ") and "pad=Some" in call
        hd = dict(kv.split("=", 1) for kv in head.split(" ")[2:] if "=" in kv)
        hs = re.match(r"TRK \S+ packed=(\d) union=(\d) rust_union=(\d) known=(.*)$", head)
        if env is None:
            env = (hs.group(1), hs.group(2), hs.group(3), opt_pair(hs.group(4)))
        m = re.match(r"off=(\d+) maxalign=(\d+) lastbf=(\d) latest=(.*) padcount=(\d+)$", st)
        state = "(%s, %s, %s, %s, %s)" % (m.group(1), m.group(2), "true" if m.group(3) == "1" else "false", opt_pair(m.group(4)), m.group(5))
        c = call.split(" ")
        kv = dict(x.split("=", 1) for x in c[1:] if "=" in x)
        if c[0] == "saw_field":
            off = re.match(r"Some\((\d+)\)", kv["offset"])
            pad = re.search(r"pad=Some\(\((\d+), (\d+)\)\)", call)
            steps.append("(SawField %s %s %s, %s, %s)" % (kv["size"], kv["align"], "(Some %s)" % off.group(1) if off else "None", "None" if skip_state else "Some " + state, "(Some (%s, %s))" % pad.groups() if pad else "None"))
        elif c[0] == "saw_bitfield_unit":
            steps.append("(SawBitfieldUnit %s %s, Some %s, None)" % (kv["size"], kv["align"], state))
        elif c[0] == "saw_vtable":
            steps.append("(SawVtable, Some %s, None)" % state)
        elif c[0] == "saw_base":
            lay = re.match(r"layout=Some\(\((\d+), (\d+)\)\)", c[1] + " " + " ".join(c[2:]))
            steps.append("(SawBase %s, Some %s, None)" % ("(Some (%s, %s))" % lay.groups() if lay else "None", state))
        elif c[0] == "saw_flexible_array":
            steps.append("(SawFlexibleArray, Some %s, None)" % state)
        elif c[0] in ("add_tail_padding", "pad_struct"):
            # logged at entry; the blob, if one is emitted, is the next line (padding_field)
            nxt = lines[li + 1].split("|")[1].strip() if li + 1 < len(lines) else ""
            pm = re.match(r"padding_field size=(\d+) align=(\d+)", nxt)
            pad = "(Some (%s, %s))" % pm.groups() if pm else "None"
            steps.append("(%s %s %s, None, %s)" % ("AddTailPadding" if c[0] == "add_tail_padding" else "PadStruct", kv["size"], kv["align"], pad))
        elif c[0] in ("padding_field", "requires_explicit_align"):
            # entry-logged calls (state before = state after the previous call) and the blob log: the padding layouts are
            # already checked through saw_field's pad=; tail/struct padding is checked by the end-to-end numbers
            continue
        else:
            return None
    if env is None or not steps:
        return None
    force = any("| add_tail_padding " in l and " force=1 " in l for l in lines)
    return "(%s, (%s, %s, %s, %s), [%s])" % ("true" if force else "false", "true" if env[0] == "1" else "false", "true" if env[1] == "1" else "false", "true" if env[2] == "1" else "false", env[3], "; ".join(steps))


def replay(ck, path):
    print(open(path).read())
    run(ck)
