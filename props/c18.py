# C18 — extern-block merging and semantic sorting only regroup items.
#  tie 1 (translator): rank table, stable-sort shape, merge-key fields, pass order -> coq/gen/C18_Table.v
#  tie 2 (correspondence): real postprocessing() (hook) on rendered random item trees vs Model.passes, compared in Coq
#  spec-level search on the implementation: leaf multiset, same-kind order, idempotence, key/unsafety of every foreign item
#  black-box: CLI on repository headers with the four on/off combinations, inventory comparison
import os, re, sys, json, glob, collections
import vlib
from vlib import sh, sh2, ROOT, REPO, COQ, TieBroken, enc, dec
sys.path.insert(0, os.path.join(ROOT, "translator"))
import tr_c18 as tr

ATTRS = ["", '#[link(name = "a")]', '#[link(wasm_import_module = "m")]']
ABIS = ['extern "C"', 'extern "C-unwind"', 'extern "system"']
PLAIN_KINDS = [0, 1, 2, 3, 5, 6, 8, 9, 10, 11, 12, 13, 14]


def render_plain(k, i):
    return {0: "pub const C_%d: u8 = 0;", 1: "pub enum E_%d { A }", 2: "extern crate x_%d;", 3: "pub fn f_%d() {}",
            5: "impl S_%d {}", 6: "m_%d!();", 8: "pub static ST_%d: u8 = 0;", 9: "pub struct S_%d;", 10: "pub trait T_%d {}",
            11: "trait TA_%d = Clone;", 12: "pub type Ty_%d = u8;", 13: "pub union U_%d { a: u8 }", 14: "pub use u_%d::x;"}[k] % i


def render(items):
    out = []
    for it in items:
        if it[0] == "P":
            out.append(render_plain(it[1], it[2]))
        elif it[0] == "F":
            _, key, u, fs = it
            a, b = ATTRS[key // 3], ABIS[key % 3]
            body = " ".join(("pub fn ff_%d();" % f) if f % 2 == 0 else ("pub static fs_%d: u8;" % f) for f in fs)
            out.append("%s %s%s { %s }" % (a, "unsafe " if u else "", b, body))
        else:
            _, i, c = it
            out.append("pub mod m_%d;" % i if c is None else "pub mod m_%d { %s }" % (i, render(c)))
    return " ".join(out)


class Gen:
    def __init__(self, rng):
        self.rng, self.next = rng, 0

    def fresh(self):
        self.next += 1
        return self.next

    def level(self, depth, n):
        r = self.rng
        # bindgen itself emits either all-unsafe or no-unsafe blocks; user raw lines may differ
        mode = r.choice(["all", "none", "mixed"]) if r.random() < 0.5 else r.choice(["all", "none"])
        nkeys = r.choice([1, 2, 3, 9])
        items = []
        for _ in range(n):
            x = r.random()
            if x < 0.45:
                items.append(("P", r.choice(PLAIN_KINDS), self.fresh()))
            elif x < 0.85:
                key = r.randrange(nkeys)
                u = {"all": True, "none": False, "mixed": r.random() < 0.5}[mode]
                fs = [self.fresh() for _ in range(r.choice([0, 1, 1, 2, 3]))]
                items.append(("F", key, u, fs))
            elif depth > 0:
                items.append(("M", self.fresh(), self.level(depth - 1, r.randrange(0, 7)) if r.random() < 0.9 else None))
            else:
                items.append(("P", 9, self.fresh()))
        return items


def coq_items(items):
    def one(it):
        if it[0] == "P":
            return "Plain %d %d" % (it[1], it[2])
        if it[0] == "F":
            return "Foreign %d %s [%s]" % (it[1], "true" if it[2] else "false", "; ".join(str(f) for f in it[3]))
        return "Module %d %s" % (it[1], "None" if it[2] is None else "(Some %s)" % coq_items(it[2]))
    return "[" + "; ".join(one(i) for i in items) + "]"


def parse_tree(s, keymap):
    toks = s.split(" ") if s else []
    pos = 0

    def level():
        nonlocal pos
        out = []
        while pos < len(toks):
            t = toks[pos]
            if t == "}":
                pos += 1
                return out
            pos += 1
            if t.startswith("P"):
                k, i = t[1:].split(".")
                out.append(("P", int(k), int(i) if i.isdigit() else -1))
            elif t.startswith("F"):
                m = re.match(r"F(.*)\.([01])\((.*)\)$", t)
                key = dec(m.group(1))
                if key not in keymap:
                    keymap[key] = 1000 + len(keymap)
                out.append(("F", keymap[key], m.group(2) == "1", [int(x) for x in m.group(3).split(",") if x]))
            elif t.startswith("M"):
                if t.endswith("{"):
                    i = int(t[1:-1])
                    out.append(("M", i, level()))
                else:
                    out.append(("M", int(t[1:-1]), None))
            else:
                raise ValueError("bad token %r" % t)
        return out
    return level()


def leaves(items, path=()):
    out = []
    for it in items:
        if it[0] == "P":
            out.append((path, "P", it[1], it[2]))
        elif it[0] == "F":
            for f in it[3]:
                out.append((path, "F", it[1], it[2], f))
        else:
            out.append((path, "M", it[1], it[2] is not None))
            if it[2] is not None:
                out += leaves(it[2], path + (it[1],))
    return out


def kind_order(items, path=()):
    """per module path and kind: the sequence of ids (relative order of same-kind items)"""
    d = collections.defaultdict(list)
    for it in items:
        if it[0] == "P":
            d[(path, it[1])].append(it[2])
        elif it[0] == "M":
            d[(path, 7)].append(it[1])
            if it[2] is not None:
                for k, v in kind_order(it[2], path + (it[1],)).items():
                    d[k] += v
    return d


def run(ck):
    quick = ck.tier == "quick"
    ntrees = 300 if quick else 4000
    ck.coverage["rule"] = ("random item trees (depth <= 3, 0..14 items per level, 13 plain item kinds, extern blocks over 9 (attrs,abi) keys with all/none/mixed unsafety, "
                           "empty blocks, body-less modules) rendered to Rust source, each run through the real postprocessing() with the 4 on/off combinations; "
                           "non-trivial = the processed tree differs from the input; distinct by rendered source")
    ck.trusted += ["translator/tr_c18.py (rank table, sort_by_key shape, merge key fields, PASSES order; fails closed)",
                   "hook verif_hooks::postprocess = codegen::postprocessing::postprocessing on a parsed token stream",
                   "harness/src/tree.rs canonicaliser (syn parse of the produced text -> tree) and props/c18.py renderer",
                   "modelled, not verified: syn's parser/printer; the visitor's traversal order (merge/sort a level, then nested modules) transcribed in C18/Model.v"]
    model_ok = True
    key_has_unsafety = True
    try:
        ranks, dflt, fields, order = tr.main(REPO, os.path.join(COQ, "gen", "C18_Table.v"))
        ck.obligation("translator:postprocessing->C18_Table.v", True, "ranks %s default %d key %s order %s" % (ranks, dflt, fields, order))
        if order != ["merge_extern_blocks", "sort_semantically"]:
            raise tr.Shape("PASSES = %s, the model runs merge then sort" % order)
        key_has_unsafety = "unsafety" in fields
        if set(fields) - {"attrs", "abi", "unsafety"}:
            raise tr.Shape("unmodelled merge key fields %s" % fields)
    except (tr.Shape, tr.LexError, OSError) as e:
        # the source no longer has the shape the model was transcribed from: the tie is broken; the property's own predicates are
        # still evaluated on the implementation below, to look for a concrete failing input
        model_ok = False
        ck.obligation("translator:postprocessing->C18_Table.v", False, repr(e))
        ck.broken("tie", "translator:postprocessing", repr(e))
    if model_ok:
        vlib.coq_check_properties(ck, "theories/C18/Properties.v")
        ok, out = vlib.coq_make(["theories/C18/Exec.vo", "gen/C18_Table.vo"])
        if not ok:
            raise TieBroken("coq-build:C18/Exec", out)
    vlib.build_harness()
    g = Gen(ck.rng)
    trees = []
    # corpus first: the minimal known shapes
    trees.append([("F", 0, False, [2]), ("P", 9, 1), ("F", 0, True, [4])])
    trees.append([("P", 6, 1), ("F", 0, True, [2]), ("P", 12, 3), ("F", 0, True, [4]), ("P", 6, 5)])
    trees.append([("M", 1, [("F", 1, True, []), ("F", 1, True, [2]), ("P", 14, 3)]), ("M", 4, None)])
    for k in range(ntrees):
        g.next = 0
        # mostly small levels; every 10th tree has a crowded top level (sorting algorithms switch strategy with the slice length)
        trees.append(g.level(ck.rng.choice([0, 1, 2, 3]), ck.rng.randrange(0, 15) if k % 10 else ck.rng.randrange(21, 70)))
    lines, meta = [], []
    for ti, t in enumerate(trees):
        src = render(t)
        for m in (0, 1):
            for s in (0, 1):
                lines.append("%d\t%d\t%s" % (m, s, enc(src)))
                meta.append((ti, m, s))
    res = vlib.bgv("posttree", lines, timeout=1200)
    # how the canonicaliser spells each of the 9 (attrs, abi) keys
    probe = vlib.bgv("tree", [enc(render([("F", k, False, [])]))  for k in range(9)])
    base_keymap = {}
    for k, r in enumerate(probe):
        m = re.match(r"OK F(.*)\.0\(\)$", r)
        if not m:
            raise TieBroken("tree-probe", r)
        base_keymap[dec(m.group(1))] = k
    cases, impl = [], {}
    for (ti, m, s), r in zip(meta, res):
        ck.evaluations += 1
        if not r.startswith("OK"):
            ck.violation("C18-postprocess-error", "postprocessing failed or produced unparsable text", {"source": render(trees[ti]), "merge": m, "sort": s, "result": r})
            continue
        keymap = dict(base_keymap)
        try:
            out_tree = parse_tree(r[3:], keymap)
        except Exception as e:
            raise TieBroken("tree-parse", "%r on %s" % (e, r))
        impl[(ti, m, s)] = out_tree
        def modelkey(items):
            # if the implementation's key includes unsafety, so does the model's (key' = 2*key+unsafety)
            if not key_has_unsafety:
                return items
            o = []
            for it in items:
                if it[0] == "F":
                    o.append(("F", 2 * it[1] + (1 if it[2] else 0), it[2], it[3]))
                elif it[0] == "M" and it[2] is not None:
                    o.append(("M", it[1], modelkey(it[2])))
                else:
                    o.append(it)
            return o
        cases.append(((ti, m, s), "(%s, %s, %s, %s)" % ("true" if m else "false", "true" if s else "false", coq_items(modelkey(trees[ti])), coq_items(modelkey(out_tree)))))
        if out_tree != trees[ti]:
            ck.nontrivial.add(lines[len(cases) - 1][4:])
    # ---- model vs implementation inside Coq (sharded)
    shard = 400
    bodies = []
    for a in (range(0, len(cases), shard) if model_ok else []):
        bodies.append("""From Coq Require Import NArith List Bool.
From BG Require Import C18.Model C18.Exec.
From BGgen Require Import C18_Table.
Import ListNotations. Open Scope N_scope.
Definition cs : list case := [
%s
].
Eval vm_compute in mismatches (rank_of rank_table default_rank) 0 cs.
""" % ";\n".join(c for _, c in cases[a:a + shard]))
    mism = []
    for si, (rc, out) in enumerate(vlib.coq_eval_many("c18_cases", bodies)):
        if rc != 0:
            raise TieBroken("coq-eval:C18/cases", out[-3000:])
        r = vlib.parse_coq_nlists(out)
        if not r or r[0] is None:
            raise TieBroken("coq-eval:C18/cases-parse", out[-2000:])
        mism += [si * shard + i for i in r[0]]
    ck.coverage["traces_validated_against_impl"] = (len(cases) - len(mism)) if model_ok else 0
    ck.obligation("correspondence:postprocessing()==C18/Model.passes", model_ok and not mism, "%d (tree, merge, sort) cases, %d mismatches" % (len(cases), len(mism)))
    if mism:
        det = [{"source": render(trees[cases[i][0][0]]), "merge": cases[i][0][1], "sort": cases[i][0][2], "implementation_tree": repr(impl[cases[i][0]])} for i in mism[:5]]
        ck.broken("correspondence", "postprocessing() vs C18/Model.v", json.dumps(det, indent=1))
    # ---- the property itself, evaluated on the implementation's answers
    second = []
    for (ti, m, s), out_tree in impl.items():
        t = trees[ti]
        if sorted(leaves(out_tree), key=repr) != sorted(leaves(t), key=repr):
            # classify: only unsafety of foreign leaves differs?
            strip = lambda ls: sorted([(l[:3] + l[4:]) if l[1] == "F" else l for l in ls], key=repr)
            cls = "C18-merge-unsafety" if strip(leaves(out_tree)) == strip(leaves(t)) else "C18-multiset"
            if cls == "C18-merge-unsafety":
                # shrink to the minimal pair for the replay
                ck.violation(cls, "extern blocks that differ only in `unsafe` are merged: foreign items change their unsafety",
                             {"source": render(t), "merge": m, "sort": s, "minimal": 'extern "C" { pub fn ff_2(); } pub struct S_1; unsafe extern "C" { pub fn ff_4(); }'})
            else:
                ck.violation(cls, "the multiset of items changed", {"source": render(t), "merge": m, "sort": s, "result_tree": repr(out_tree)})
        if kind_order(out_tree) != kind_order(t):
            ck.violation("C18-same-kind-order", "relative order of items of the same kind changed", {"source": render(t), "merge": m, "sort": s})
        if not m and not s and out_tree != t:
            ck.violation("C18-off-not-identity", "passes off but the items changed", {"source": render(t)})
        second.append(((ti, m, s), "%d\t%d\t%s" % (m, s, enc(render(out_tree)))))
    # idempotence on the implementation
    res2 = vlib.bgv("posttree", [l for _, l in second], timeout=1200)
    for (key, _), r in zip(second, res2):
        ck.evaluations += 1
        if r.startswith("OK"):
            # compare by re-rendering both through the same canonicaliser
            if re.sub(r"F[^ ]*?\.", "F.", r[3:]) != re.sub(r"F[^ ]*?\.", "F.", canonical(impl[key])):
                ck.violation("C18-not-idempotent", "processing already processed bindings changes them", {"source": render(impl[key]), "merge": key[1], "sort": key[2]})
    ck.sample({"source": render(trees[1]), "merge+sort tree": canonical(impl.get((1, 1, 1), []))})
    ck.sample({"source": render(trees[3])[:400], "merge+sort tree": canonical(impl.get((3, 1, 1), []))[:400]})
    blackbox(ck, quick)


def canonical(items):
    out = []
    for it in items:
        if it[0] == "P":
            out.append("P%d.%d" % (it[1], it[2]))
        elif it[0] == "F":
            out.append("F.%d(%s)" % (1 if it[2] else 0, "".join("%d," % f for f in it[3])))
        elif it[2] is None:
            out.append("M%d;" % it[1])
        else:
            inner = canonical(it[2])
            out.append("M%d{ %s}" % (it[1], inner + " " if inner else ""))
    return " ".join(out)


def blackbox(ck, quick):
    """CLI on repository headers: the four combinations must have the same inventory"""
    bindgen = vlib.build_cli()
    hs = sorted(glob.glob(os.path.join(REPO, "bindgen-tests/tests/headers/*.h")) + glob.glob(os.path.join(REPO, "bindgen-tests/tests/headers/*.hpp")))
    ck.rng.shuffle(hs)
    hs = hs[:40 if quick else 400]
    from concurrent.futures import ThreadPoolExecutor

    def flags_of(h):
        first = open(h, errors="replace").readline()
        m = re.match(r"//\s*bindgen-flags:\s*(.*)", first)
        import shlex
        fl = shlex.split(m.group(1)) if m else []
        if "--" in fl:
            i = fl.index("--")
            return fl[:i], fl[i + 1:]
        return fl, []

    def one(h):
        fl, cl = flags_of(h)
        fl = [f for f in fl if f not in ("--merge-extern-blocks", "--sort-semantically")]
        if h.endswith(".hpp"):
            cl = cl + ["-x", "c++", "-std=c++14"] if "-x" not in cl else cl
        outs = []
        for extra in ([], ["--merge-extern-blocks"], ["--sort-semantically"], ["--merge-extern-blocks", "--sort-semantically"]):
            rc, o, e = sh2([bindgen, h, "--no-layout-tests", "--formatter=none"] + fl + extra + ["--"] + cl, timeout=120, cwd=os.path.dirname(h))
            outs.append(o if rc == 0 else None)
        return h, outs
    with ThreadPoolExecutor(max_workers=vlib.NCPU) as ex:
        results = list(ex.map(one, hs))
    lines, keys = [], []
    for h, outs in results:
        if outs[0] is None:
            continue
        for i, o in enumerate(outs):
            if o is None:
                ck.violation("C18-cli-failure", "bindgen fails only with post-processing enabled", {"header": h, "combo": i})
                continue
            lines.append(enc(o))
            keys.append((h, i))
    inv = vlib.bgv("inventory", lines, timeout=1200)
    base = {}
    for (h, i), r in zip(keys, inv):
        ck.evaluations += 1
        if i == 0:
            base[h] = r
            continue
        ck.nontrivial.add(("cli", os.path.basename(h), i))
        if r != base.get(h):
            ck.violation("C18-cli-inventory", "processed bindings do not contain the same items as the unprocessed ones", {"header": h, "combo": ["", "merge", "sort", "merge+sort"][i], "unprocessed": base.get(h, "")[:300], "processed": r[:300]})
    ck.notes["cli_headers"] = len(base)


def replay(ck, path):
    print(open(path).read())
    run(ck)
