# C03, thorough tier only: the verbatim bitfield_unit.rs interpreted by Miri for a big-endian 64-bit target and a little-endian
# 32-bit target, compared case by case with the OCaml extraction of the model instantiated for that endianness / usize width.
# (The host sweep only exercises little-endian, usize = 64; the theorems cover all four combinations.)
import os, re
from concurrent.futures import ThreadPoolExecutor
import vlib
from vlib import sh, ROOT, REPO, CACHE, TieBroken

TARGETS = [("s390x-unknown-linux-gnu", 64, 1), ("i686-unknown-linux-gnu", 32, 0)]


def run(ck, driver):
    jobs = [(t, bits, be, n) for (t, bits, be) in TARGETS for n in (1, 2, 3, 4)]

    def one(j):
        t, bits, be, n = j
        env = {"VERIF_REPO": REPO, "CARGO_TARGET_DIR": os.path.join(CACHE, "target-bit-miri"), "MIRIFLAGS": "-Zmiri-disable-isolation", "CARGO_NET_OFFLINE": "true"}
        cmd = "cargo +nightly miri run --offline --target %s -- rt %d %d %d 1 2>/dev/null | %s rel %d %d" % (t, n, n, ck.seed, driver, bits, be)
        rc, out = sh(cmd, cwd=os.path.join(ROOT, "bitharness"), env=env, timeout=7200)
        return j, rc, out
    # the first invocation builds Miri's sysroot for the target: run one job per target first, then the rest in parallel
    first = [one(j) for j in jobs if j[3] == 1]
    with ThreadPoolExecutor(max_workers=vlib.NCPU) as ex:
        rest = list(ex.map(one, [j for j in jobs if j[3] != 1]))
    total = mism = 0
    for j, rc, out in first + rest:
        m = re.search(r"SUMMARY (.*)", out)
        if rc != 0 or not m:
            raise TieBroken("miri-sweep", "%s\n%s" % (j, out[-1500:]))
        kv = dict(x.split("=") for x in m.group(1).split())
        total += int(kv["total"])
        mism += int(kv["mismatches"])
        if int(kv["mismatches"]):
            bad = [l for l in out.splitlines() if l.startswith("MISMATCH")][:5]
            ck.broken("correspondence", "bitfield_unit.rs under Miri (%s) vs C03/Model.v" % j[0], "\n".join(bad))
        if int(kv["specfail_inside_guard"]):
            bad = [l for l in out.splitlines() if l.startswith("SPECFAIL inside-guard")][:3]
            ck.violation("C03-arith-inside-guard", "accessor arithmetic disagrees with the bit-vector reference on %s" % j[0], {"target": j[0], "cases": bad})
    ck.evaluations += total
    ck.notes["miri_cases"] = total
    ck.obligation("correspondence:bitfield_unit.rs==Model.v(Miri: big-endian 64-bit, little-endian 32-bit)", mism == 0, "%d cases on %s, %d mismatches" % (total, ", ".join(t for t, _, _ in TARGETS), mism))
