# C15 — formatter choice changes only whitespace; formatter failure is not fatal.
#  theorems: C15/Properties.v (decision table of format_tokens/write for every child outcome)
#  tie: the real Bindings::write with rustfmt_path pointed at scripted fake formatters, one per fault mode
#       x small / multi-MB bindings; produced text compared with Model.write inside Coq
#  token equality of none / rustfmt / prettyplease outputs on repository headers (sampled, not proved)
import os, re, sys, json, glob, stat, tempfile, shutil
from concurrent.futures import ThreadPoolExecutor
import vlib
from vlib import sh, sh2, ROOT, REPO, COQ, CACHE, TieBroken, enc, dec

FORMATTED = "pub struct FormattedByFake;\n"
# name -> (script body, spawn_ok, utf8, status model, out bytes)   status: ("code", n) | ("signal",)
MODES = {
    "ok_exit0": ('cat >/dev/null; printf "%s"; exit 0' % FORMATTED.replace("\n", "\\n"), True, True, ("code", 0), FORMATTED),
    "partial_exit3": ('cat >/dev/null; printf "%s"; exit 3' % FORMATTED.replace("\n", "\\n"), True, True, ("code", 3), FORMATTED),
    "exit1_nothing": ("cat >/dev/null; exit 1", True, True, ("code", 1), ""),
    # a failing status with output that is well-formed Rust but is not the bindings (a formatter that died after some complete items)
    "exit1_valid_rust": ('cat >/dev/null; printf "%s"; exit 1' % FORMATTED.replace("\n", "\\n"), True, True, ("code", 1), FORMATTED),
    "exit2_valid_rust": ('cat >/dev/null; printf "%s"; exit 2' % FORMATTED.replace("\n", "\\n"), True, True, ("code", 2), FORMATTED),
    "exit4_valid_rust": ('cat >/dev/null; printf "%s"; exit 4' % FORMATTED.replace("\n", "\\n"), True, True, ("code", 4), FORMATTED),
    "exit255_valid_rust": ('cat >/dev/null; printf "%s"; exit 255' % FORMATTED.replace("\n", "\\n"), True, True, ("code", 255), FORMATTED),
    "sigterm_valid_rust": ('cat >/dev/null; printf "%s"; kill -TERM $$' % FORMATTED.replace("\n", "\\n"), True, True, ("signal",), FORMATTED),
    "exit2_parse_error": ('cat >/dev/null; printf "half"; exit 2', True, True, ("code", 2), "half"),
    "exit101_everything": ('cat >/dev/null; printf "%s"; exit 101' % FORMATTED.replace("\n", "\\n"), True, True, ("code", 101), FORMATTED),
    "exit255": ("cat >/dev/null; exit 255", True, True, ("code", 255), ""),
    "sigkill": ('cat >/dev/null; printf "x"; kill -KILL $$', True, True, ("signal",), "x"),
    "sigsegv": ("cat >/dev/null; kill -SEGV $$", True, True, ("signal",), ""),
    "invalid_utf8_exit0": ("cat >/dev/null; printf '\\377\\376ab'; exit 0", True, False, ("code", 0), None),
    "invalid_utf8_exit1": ("cat >/dev/null; printf '\\377'; exit 1", True, False, ("code", 1), None),
    "closes_stdin_exit0": ('exec 0<&-; printf "%s"; exit 0' % FORMATTED.replace("\n", "\\n"), True, True, ("code", 0), FORMATTED),
    "never_reads_stdin_exit1": ("sleep 0.2; exit 1", True, True, ("code", 1), ""),
    "never_reads_stdin_exit0_empty": ("exit 0", True, True, ("code", 0), ""),
    # formatters that write while (or before) they read: the parent must read the child's stdout while it feeds its stdin
    "stream_cat_exit0": ("cat; exit 0", True, True, ("code", 0), ("SRC",)),
    "stream_cat_exit1": ("cat; exit 1", True, True, ("code", 1), ("SRC",)),
    "big_output_before_reading_exit0": ("head -c 200000 /dev/zero | tr '\\000' x; cat >/dev/null; exit 0", True, True, ("code", 0), ("BIG", 200000)),
    "big_output_never_reads_exit1": ("head -c 200000 /dev/zero | tr '\\000' x; exit 1", True, True, ("code", 1), ("BIG", 200000)),
    "absent_path": (None, False, True, ("code", 0), ""),
    "directory": ("DIR", False, True, ("code", 0), ""),
    "not_executable": ("NOEXEC", False, True, ("code", 0), ""),
}


def run(ck):
    quick = ck.tier == "quick"
    ck.coverage["rule"] = ("every enumerated fault mode of the formatter child (25 modes: failing statuses with well-formed Rust output, streaming formatters that write while or before they read, absent / directory / not executable, exit 0/1/2/3/101/255 with nothing / partial / full output, "
                           "SIGKILL, SIGSEGV, invalid UTF-8 with exit 0 and 1, stdin closed early, stdin never read) x {small, multi-MB} bindings x {header comment on/off, raw lines}; "
                           "token comparison of the three formatters on repository headers; distinct by (mode, size, prefix options)")
    ck.trusted += ["harness fmt subcommand = Builder::with_rustfmt(fake).generate() + Bindings::write into a Vec",
                   "fake formatters are /bin/sh scripts; their observable behaviour (exit status, bytes) is what the model's `child` record lists",
                   "modelled, not verified: OS pipe/process semantics (a child that neither reads stdin nor exits would hang the parent: not exhibited); rustfmt and prettyplease preserving tokens is sampled with proc_macro2 token streams, not proved"]
    vlib.coq_check_properties(ck, "theories/C15/Properties.v")
    ok, out = vlib.coq_make(["theories/C15/Model.vo"])
    if not ok:
        raise TieBroken("coq-build:C15", out)
    vlib.build_harness()
    exe = os.path.join(vlib.TARGET, "debug", "bgv")
    tmp = tempfile.mkdtemp(prefix="c15_", dir=CACHE)
    try:
        small = os.path.join(tmp, "small.h")
        open(small, "w").write("struct s { int a; char b; };\nint f(struct s *);\n")
        big = os.path.join(tmp, "big.h")
        with open(big, "w") as f:
            for i in range(6000 if quick else 30000):
                f.write("struct big_%d { int a%d; long b%d; double c%d[4]; };\nint fn_%d(struct big_%d *p, int q);\n" % (i, i, i, i, i, i))
        paths = {}
        for name, (script, *_rest) in MODES.items():
            p = os.path.join(tmp, "fake_" + name)
            if script is None:
                p = os.path.join(tmp, "does", "not", "exist")
            elif script == "DIR":
                os.makedirs(p)
            elif script == "NOEXEC":
                open(p, "w").write("#!/bin/sh\nexit 0\n")
                os.chmod(p, 0o644)
            else:
                open(p, "w").write("#!/bin/sh\n" + script + "\n")
                os.chmod(p, 0o755)
            paths[name] = p

        def fmt(formatter, path, nohdr, header, raw):
            rc, o, e = sh2([exe, "fmt", formatter, enc(path) if path else "-", "1" if nohdr else "0", enc(header)] + [enc(r) for r in raw], timeout=240)
            if rc == 124:
                return rc, "HANG (no result within 240 s)", e
            return rc, o.strip(), e
        # unformatted source for both sizes (formatter none, no prefix)
        src = {}
        for lab, h in (("small", small), ("big", big)):
            rc, o, e = fmt("none", None, True, h, [])
            if not o.startswith("OK "):
                raise TieBroken("harness:fmt none", o[:300] + e[-300:])
            src[lab] = dec(o[3:])
        ck.notes["big_source_bytes"] = len(src["big"])
        jobs = []
        for name in MODES:
            for lab, h in (("small", small), ("big", big)):
                for nohdr, raw in ((False, []), (True, ["// raw one", "use x::y;"]), (False, ["// r"])):
                    if lab == "big" and (nohdr or raw) and quick:
                        continue
                    jobs.append((name, lab, h, nohdr, raw))
        with ThreadPoolExecutor(max_workers=vlib.NCPU) as ex:
            res = list(ex.map(lambda j: fmt("rustfmt", paths[j[0]], j[3], j[2], j[4]), jobs))
        # header comment text as the implementation writes it
        rc, o, e = fmt("none", None, False, small, [])
        full = dec(o[3:])
        hdr = full[:len(full) - len(src["small"])].rstrip("\n")
        terms, metas = [], []
        for (name, lab, h, nohdr, raw), (rc, o, e) in zip(jobs, res):
            ck.evaluations += 1
            ck.nontrivial.add((name, lab, nohdr, len(raw)))
            script, spawn_ok, utf8, status, outb = MODES[name]
            if not o.startswith("OK "):
                cls = ("C15-hang:" if o.startswith("HANG") else "C15-fatal:") + name
                ck.violation(cls, "formatter fault mode '%s' makes writing the bindings fail (%s)" % (name, o.split(" ")[0]), {"mode": name, "script": script, "size": lab, "result": o[:300], "stderr": e[-300:]})
                continue
            text = dec(o[3:])
            st = "Code %d%%Z" % status[1] if status[0] == "code" else "Signalled"
            # only the length/hash of big texts goes to Coq: compare by decomposing here, then ask Coq which body the model picks
            # the source and a big output go to Coq as stand-ins (the model only chooses between them)
            ob = "SRC" if outb == ("SRC",) else "[7; 7; 7; 7]" if isinstance(outb, tuple) else vlib.coq_str(outb if outb is not None else "")
            terms.append("({| spawn_ok := %s; copy_ok := true; out := %s; out_utf8 := %s; status := %s |}, %s, [%s])" % (
                "true" if spawn_ok else "false", ob, "true" if utf8 else "false", st,
                "None" if nohdr else "(Some %s)" % vlib.coq_str(hdr), "; ".join(vlib.coq_str(r) for r in raw)))
            metas.append((name, lab, nohdr, raw, text))
        # model: which body (0 = source, 2 = child's output) and the prefix bytes
        body = """From Coq Require Import NArith ZArith List Bool.
From BG Require Import C15.Model.
Import ListNotations. Open Scope N_scope.
Definition SRC : str := [1; 2; 3]. (* stands for the unformatted source *)
Fixpoint eqs (a b : str) : bool := match a, b with [], [] => true | x :: a', y :: b' => (x =? y) && eqs a' b' | _, _ => false end.
Definition cases := [
%s
].
Eval vm_compute in map (fun c => match c with (ch, hd, raw) =>
   (if eqs (body FRustfmt SRC [] ch) SRC then 0 else if eqs (body FRustfmt SRC [] ch) (out ch) then 2 else 9) :: prefix hd raw end) cases.
""" % ";\n".join(terms)
        rc, out = vlib.coq_eval("c15_cases", body)
        if rc != 0:
            raise TieBroken("coq-eval:C15", out[-2500:])
        ls = vlib.parse_coq_nlists(out)
        if not ls or ls[0] is None or len(ls[0]) != len(metas):
            raise TieBroken("coq-eval:C15-parse", out[-1500:])
        mism = 0
        for (name, lab, nohdr, raw, text), m in zip(metas, ls[0]):
            which, pref = m[0], bytes(m[1:]).decode("utf-8", "replace")
            script, spawn_ok, utf8, status, outb = MODES[name]
            outs = src[lab] if outb == ("SRC",) else "x" * outb[1] if isinstance(outb, tuple) else (outb or "")
            expect = pref + (src[lab] if which == 0 else outs)
            if text != expect:
                mism += 1
                # is it a property violation (failure not falling back / corrupted text) or a model difference?
                failed = (not spawn_ok) or (not utf8) or status[0] != "code" or status[1] not in (0, 3)
                if failed and text != pref + src[lab]:
                    ck.violation("C15-no-fallback:" + name, "formatter failure '%s' does not yield the unformatted bindings" % name,
                                 {"mode": name, "script": script, "size": lab, "got_head": text[:300], "expected_head": expect[:300]})
                elif not text.startswith(pref):
                    ck.violation("C15-prefix:" + name, "header comment / raw lines are not present exactly once in order", {"mode": name, "got_head": text[:300], "expected_prefix": pref})
                else:
                    ck.broken("correspondence", "Bindings::write vs C15/Model.write", json.dumps({"mode": name, "size": lab, "got_head": text[:200], "model_head": expect[:200]}))
        ck.coverage["traces_validated_against_impl"] = len(metas) - mism
        ck.obligation("correspondence:Bindings::write==C15/Model.write on fake formatters", mism == 0, "%d (mode, size, prefix) cases, %d mismatches" % (len(metas), mism))
        ck.sample({"mode": "exit1_nothing", "script": MODES["exit1_nothing"][0], "result": "unformatted source after the header comment"})
        ck.sample({"mode": "invalid_utf8_exit0", "script": MODES["invalid_utf8_exit0"][0], "result": "unformatted source"})
        tokens_equal(ck, exe, quick)
    finally:
        shutil.rmtree(tmp, ignore_errors=True)


def tokens_equal(ck, exe, quick):
    hs = sorted(glob.glob(os.path.join(REPO, "bindgen-tests/tests/headers/*.h")))
    ck.rng.shuffle(hs)
    hs = hs[:20 if quick else 300]
    have_rustfmt = shutil.which("rustfmt") is not None
    fms = ["none", "prettyplease"] + (["rustfmt"] if have_rustfmt else [])

    def one(h):
        outs = {}
        for f in fms:
            rc, o, e = sh2([exe, "fmt", f, "-", "0", enc(h), enc("// raw line")], timeout=300, cwd=os.path.dirname(h))
            outs[f] = o.strip()
        return h, outs
    with ThreadPoolExecutor(max_workers=vlib.NCPU) as ex:
        res = list(ex.map(one, hs))
    lines, keys = [], []
    for h, outs in res:
        if not all(o.startswith("OK ") for o in outs.values()):
            ck.count("token_eq_skipped_generation_failed")
            continue
        for f in fms:
            lines.append(outs[f][3:])
            keys.append((h, f))
    toks = vlib.bgv("tokens", lines, timeout=600)
    by = {}
    for (h, f), t in zip(keys, toks):
        by.setdefault(h, {})[f] = t
    for h, d in by.items():
        ck.evaluations += 1
        ck.nontrivial.add(("tok", os.path.basename(h)))
        base = d["none"]
        for f in fms[1:]:
            if d[f] != base:
                # rustfmt's `merge_derives` folds consecutive #[derive(..)] attributes into one (only possible when the user adds a second
                # derive attribute through an annotation or callback): same traits, different tokens
                md = lambda t: re.sub(r" \) \] # \[ derive \( ", " , ", dec(t[3:]))
                if f == "rustfmt" and md(base) == md(d[f]):
                    ck.violation("C15-tokens-differ:rustfmt:merge-derives", "rustfmt merges two consecutive derive attributes into one: the token sequence differs from the unformatted bindings",
                                 {"header": h, "none": dec(base[3:])[:400], f: dec(d[f][3:])[:400]})
                    continue
                ck.violation("C15-tokens-differ:" + f, "formatter %s changes the token sequence of the bindings" % f, {"header": h, "none": dec(base[3:])[:400], f: dec(d[f][3:])[:400]})
    ck.notes["token_equality_formatters"] = fms


def replay(ck, path):
    print(open(path).read())
    run(ck)
