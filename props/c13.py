# C13 — builder configuration <-> command-line flags round trip.
#  tie 1 (translator): options! table + clap struct + apply_args! -> coq/gen/C13_Table.v; generic theorems
#         (C13/Properties.v) instantiated on it (C13/Shipped.v); also generates the harness's builder dispatcher
#  tie 2 (correspondence): Builder::command_line_flags (real) vs Model.print on random configurations of the
#         table-driven rows, compared inside Coq
#  dynamic round trips on the real library for ALL options (including the custom ones the table does not model):
#         builder API -> flags -> builder_from_flags -> flags', and bindings of both; CLI flag -> builder -> flags -> builder
import os, re, sys, json, itertools
from concurrent.futures import ThreadPoolExecutor
import vlib
from vlib import sh, sh2, ROOT, REPO, COQ, TieBroken, enc, dec
sys.path.insert(0, os.path.join(ROOT, "translator"))
import tr_c13 as tr

HEADER = os.path.join(ROOT, "data", "c13", "trigger.h")
STR_POOL = ["with_field", "f_.*", "a|b", "[a-z_]+", "Foo", "plain_fn", "a b", "x=y", 'q"r', "it's", "é", "v_[0-9]+", "T::F"]
HAZARD = ["-dash", "--looks-like-flag", "-"]


def rt1(args, timeout=120, header=None):
    exe = os.path.join(vlib.TARGET, "debug", "bgv")
    rc, out, err = sh2([exe, "rt1", enc(header or HEADER)] + [enc(a) for a in args], timeout=timeout, cwd=os.path.dirname(HEADER))
    d = {"rc": rc, "err": err[-600:]}
    for l in out.splitlines():
        k, _, v = l.partition(" ")
        d[k] = v
    return d


def arg_for(kind, r, hazard=False):
    if kind == "unit":
        return ""
    if kind == "bool":
        return r.choice(["1", "1", "0"])
    if kind == "str":
        return r.choice(HAZARD) if hazard else r.choice(STR_POOL)
    if kind == "EnumVariation":
        return r.choice(["rust", "rust_non_exhaustive", "bitfield", "consts", "moduleconsts", "newtype", "newtype_global", "bitfield_global"])
    if kind == "MacroTypeVariation":
        return r.choice(["signed", "unsigned"])
    if kind == "AliasVariation":
        return r.choice(["type_alias", "new_type", "new_type_deref"])
    if kind == "NonCopyUnionStyle":
        return r.choice(["bindgen_wrapper", "manually_drop"])
    if kind == "CodegenConfig":
        return str(r.randrange(0, 64))
    if kind == "RustTarget":
        return r.choice(["1.59", "1.64", "1.73", "1.77", "1.82", "nightly", "1.85.1"])
    if kind == "RustEdition":
        return r.choice(["2018", "2021"])
    if kind == "Formatter":
        return r.choice(["none", "prettyplease"])
    if kind == "Option<PathBuf>":
        return "/tmp/rustfmt.toml"
    if kind == "FieldVisibilityKind":
        return r.choice(["private", "crate", "public"])
    if kind == "str+str":
        return r.choice(STR_POOL[:6]) + "\x1f" + r.choice(STR_POOL)
    if kind == "Abi+str":
        return r.choice(["C", "stdcall", "C-unwind", "system", "efiapi"]) + "\x1f" + r.choice(["plain_fn", "f_.*"])
    if kind == "str+str+str":
        return "with_field\x1fa\x1f#[doc = \"x\"]"
    return None


def run(ck):
    quick = ck.tier == "quick"
    ck.coverage["rule"] = ("every Builder method of the options! table singly (each enumerated value for enum-typed ones), boolean pairs (thorough: all; quick: a seeded sample), "
                           "random configurations of up to 25 options with strings containing spaces, quotes, '=', non-ASCII and (separately) leading dashes; every clap flag singly in the "
                           "CLI->builder->flags->builder direction; non-trivial = the flag list differs from the default one; distinct by option list")
    ck.trusted += ["translator/tr_c13.py (options! invocation, Builder method bodies -> effect on a field, clap struct attributes -> long names/arity, apply_args! arms; fails closed on unknown shapes; rows it cannot model are listed in evidence and covered only by the dynamic round trips)",
                   "clap's own argument grammar is modelled by C13/Model.clap (next-token values, leading '-' rejected, single-valued options not repeatable)",
                   "harness rt1: builder_from_flags runs in a child process per case because clap exits on error",
                   "modelled, not verified: custom as_args closures (enum styles, codegen config, rust target/edition, raw lines, abi overrides, field attributes, depfile, callbacks) are exercised dynamically only"]
    try:
        t = tr.main(REPO, os.path.join(COQ, "gen", "C13_Table.v"))
        src, done, skipped_m = tr.gen_builder_rs(t["fields"])
    except (tr.Shape, tr.LexError, OSError) as e:
        raise TieBroken("translator:options", repr(e))
    gp = os.path.join(ROOT, "harness", "src", "gen_builder.rs")
    if not os.path.exists(gp) or open(gp).read() != src:
        open(gp, "w").write(src)
    ck.obligation("translator:options->C13_Table.v", True, "%d print rows, %d clap rows; not table-driven: %s" % (len(t["prows"]), len(t["crows"]), [s[0] for s in t["skipped"]]))
    ck.notes["rows_outside_the_table"] = t["skipped"]
    ck.notes["cli_args_outside_the_table"] = t["cskipped"]
    vlib.coq_check_properties(ck, "theories/C13/Properties.v")
    vlib.coq_check_properties(ck, "theories/C13/ModuleLinesProperties.v")
    shipped_ok = vlib.coq_check_properties(ck, "theories/C13/Shipped.v")
    vlib.build_harness()
    fields = t["fields"]
    fname = {i: f["name"] for i, f in enumerate(fields)}
    # witness search on the regenerated tables
    ok, out = vlib.coq_make(["gen/C13_Table.vo"])
    if not ok:
        raise TieBroken("coq-build:C13_Table", out)
    rc, out = vlib.coq_eval("c13_bad", """From Coq Require Import NArith List.
From BG Require Import C13.Model.
From BGgen Require Import C13_Table.
Import ListNotations.
Eval vm_compute in bad_rows prows crows.
""")
    bad = vlib.parse_coq_nlists(out)[0] if rc == 0 else None
    if bad is None:
        raise TieBroken("coq-eval:C13/bad_rows", out[-1500:])
    meth_kind = dict(done)
    for fi in bad:
        f = fields[fi]
        m = [m["name"] for m in f["methods"] if m["name"] in meth_kind]
        trig = None
        for mn in m:
            a = arg_for(meth_kind[mn], ck.rng)
            if a is not None:
                trig = "%s=%s" % (mn, "1" if meth_kind[mn] == "bool" and f["as_args"]["kind"] != "negflag" else "0" if meth_kind[mn] == "bool" else a)
                break
        d = rt1([trig]) if trig else {}
        ck.evaluations += 1
        if trig and (d.get("rc") != 0 or "FLAGS2" not in d):
            ck.violation("C13-flag-unknown:" + f["name"], "option %s prints %s, which the command line does not accept (or applies to another field)" % (f["name"], f["as_args"].get("flag")),
                         {"builder_call": trig, "flags": [dec(x) for x in d.get("FLAGS1", "").split("\t")], "clap": d.get("err")})
        elif trig and (d.get("SAME_FLAGS") != "1"):
            ck.violation("C13-flag-mismatch:" + f["name"], "option %s does not survive flags -> builder -> flags" % f["name"], {"builder_call": trig, "result": d})
    # ---- tie 2: print of the table-driven rows, compared in Coq
    tie_print(ck, t, meth_kind, 60 if quick else 600)
    # ---- dynamic round trips over all methods
    dynamic(ck, t, done, quick)


def tie_print(ck, t, meth_kind, n):
    fields, prows = t["fields"], t["prows"]
    r = ck.rng
    simple_flags = {fl for _, _, fl, _ in prows}
    arity = {c[0]: c[1] for c in t["crows"]}
    for c in t["cli"]:
        if c["long"]:
            arity.setdefault("--" + c["long"], "CBool" if c["type"] == "bool" else "CVal")
    cases = []
    for _ in range(n):
        k = r.choice([1, 2, 3, 5, 8, 15, 25])
        calls, state = [], {}
        for (fi, kind, fl, nm) in r.sample(prows, min(k, len(prows))):
            f = fields[fi]
            ms = [m for m in f["methods"] if m["name"] in meth_kind and meth_kind[m["name"]] in ("bool", "str", "unit")]
            if not ms:
                continue
            m = ms[0]
            mk = meth_kind[m["name"]]
            eff = tr.method_effect(m, f["name"])
            if mk == "bool" and eff == "param":
                v = r.choice(["1", "0"])
                also = tr.also_effects(m, f["name"], v == "1")
                if also is None:
                    continue
                calls.append("%s=%s" % (m["name"], v))
                state[fi] = ("VBool", v == "1")
                for g, bv in also:
                    gi = [i for i, ff in enumerate(fields) if ff["name"] == g][0]
                    if any(pr[0] == gi for pr in prows):
                        state[gi] = ("VBool", bv)
            elif mk == "unit" and eff and eff.startswith("const "):
                calls.append(m["name"])
                state[fi] = ("VBool", eff.endswith("true"))
            elif mk == "str" and eff == "push":
                vals = [r.choice(STR_POOL) for _ in range(r.choice([1, 1, 2, 3]))]
                for v in vals:
                    calls.append("%s=%s" % (m["name"], v))
                state[fi] = ("VList", state.get(fi, ("VList", []))[1] + vals)
            elif mk == "str" and eff == "some":
                v = r.choice(STR_POOL)
                calls.append("%s=%s" % (m["name"], v))
                state[fi] = ("VOpt", v)
        cases.append((calls, state))
    with ThreadPoolExecutor(max_workers=vlib.NCPU) as ex:
        res = list(ex.map(lambda c: rt1(c[0]), cases))
    terms, kept = [], []
    for (calls, state), d in zip(cases, res):
        ck.evaluations += 1
        if "FLAGS1" not in d:
            raise TieBroken("harness:rt1", json.dumps(d)[:800])
        toks = [dec(x) for x in d["FLAGS1"].split("\t")]
        # drop the header (first) and everything from "--" on; keep tokens of table-driven rows
        toks = toks[1:toks.index("--")] if "--" in toks else toks[1:]
        keep, i = [], 0
        while i < len(toks):
            fl = toks[i]
            if fl in simple_flags:
                if arity.get(fl, "CBool") == "CBool":
                    keep.append(fl)
                    i += 1
                else:
                    keep += toks[i:i + 2]
                    i += 2
            else:
                # a custom row's flag: skip it and its value(s) up to the next flag-looking token
                i += 1
                while i < len(toks) and not toks[i].startswith("--"):
                    i += 1
        def val(fi, kind):
            s = state.get(fi)
            if s is None:
                return None
            if s[0] == "VBool":
                return "VBool %s" % ("true" if s[1] else "false")
            if s[0] == "VOpt":
                return "VOpt (Some %s)" % vlib.coq_str(s[1])
            # RegexSet / Vec keep insertion order (RegexSet::insert pushes; duplicates are kept)
            return "VList [%s]" % "; ".join(vlib.coq_str(x) for x in s[1])
        ov = "; ".join("(%d, %s)" % (fi, val(fi, None)) for fi in state)
        terms.append("([%s], [%s])" % (ov, "; ".join(vlib.coq_str(x) for x in keep)))
        kept.append((calls, keep))
        if state:
            ck.nontrivial.add(json.dumps(calls))
    body = """From Coq Require Import NArith List Bool.
From BG Require Import C13.Model.
From BGgen Require Import C13_Table.
Import ListNotations. Open Scope N_scope.
Definition opts_of (l : list (N * value)) : options :=
  fun f => match find (fun p => fst p =? f) l with Some p => snd p | None => defaults prows f end.
Fixpoint toks_eqb (a b : list str) : bool := match a, b with [], [] => true | x :: a', y :: b' => str_eqb x y && toks_eqb a' b' | _, _ => false end.
Fixpoint mism (i : N) (cs : list (list (N * value) * list str)) : list N :=
  match cs with [] => [] | (o, toks) :: t => (if toks_eqb (print prows (opts_of o)) toks then [] else [i]) ++ mism (i + 1) t end.
Definition cs := [
%s
].
Eval vm_compute in mism 0 cs.
""" % ";\n".join(terms)
    rc, out = vlib.coq_eval("c13_print", body)
    if rc != 0:
        raise TieBroken("coq-eval:C13/print", out[-3000:])
    mm = vlib.parse_coq_nlists(out)
    if not mm or mm[0] is None:
        raise TieBroken("coq-eval:C13/print-parse", out[-2000:])
    mm = mm[0]
    ck.coverage["traces_validated_against_impl"] = len(terms) - len(mm)
    ck.obligation("correspondence:command_line_flags==C13/Model.print (table-driven rows)", not mm, "%d configurations, %d mismatches" % (len(terms), len(mm)))
    if mm:
        ck.broken("correspondence", "command_line_flags vs C13/Model.print", json.dumps([{"builder_calls": kept[i][0], "flags": kept[i][1]} for i in mm[:5]], indent=1))
    if kept:
        ck.sample({"builder_calls": kept[0][0], "table_driven_flags": kept[0][1]})


def failing(d):
    if "SKIP" in d:
        return None
    if "FLAGS2" not in d:
        return "reject"
    if d.get("SAME_FLAGS") != "1":
        return "flags"
    if d.get("SAME_BINDINGS") != "1":
        return "bindings"
    return None


def shrink(calls, kind):
    """greedy one-at-a-time removal keeping the same kind of failure"""
    cur = list(calls)
    i = 0
    while i < len(cur) and len(cur) > 1:
        cand = cur[:i] + cur[i + 1:]
        d = rt1(cand)
        if failing(d) == kind:
            cur = cand
        else:
            i += 1
    return cur, rt1(cur)


def judge(ck, calls, d, ctx):
    """one dynamic round trip: classify a failure"""
    ck.evaluations += 1
    k = failing(d)
    if k and len(calls) > 1 and ctx != "multi-header":
        calls, d = shrink(calls, k)
        ctx += " (shrunk)"
    if "SKIP" in d:
        ck.count("skipped_by_dispatcher")
        return
    if "FLAGS2" in d and "SAME_FLAGS" not in d:
        # the child died before it could compare anything (a panic while generating: invalid Rust tokens passed as an attribute value
        # and the like — C12's business); nothing to say about the round trip
        ck.count("round_trip_aborted_before_comparison")
        return
    first = calls[0].split("=")[0] if calls else "default"
    if k and len(calls) > 1:
        # attribute the failure to a call that fails on its own, if there is one
        for c in calls:
            if failing(rt1([c])) == k:
                first, calls, d = c.split("=")[0], [c], rt1([c])
                break
        else:
            first = "+".join(sorted({c.split("=")[0] for c in calls}))
    dash = any(("=" in c and c.split("=", 1)[1].split("\x1f")[-1].startswith("-")) or "\x1f-" in c for c in calls)
    data = {"builder_calls": calls, "flags1": [dec(x) for x in d.get("FLAGS1", "").split("\t")], "flags2": [dec(x) for x in d.get("FLAGS2", "").split("\t")] if "FLAGS2" in d else None,
            "clap_or_error": d.get("err", "")[-300:], "context": ctx}
    if "FLAGS2" not in d:
        cls = "C13-dash-value" if dash else "C13-clap-reject:" + first
        if "Unknown codegen item kind" in d.get("err", "") and "--generate\t\t" in d.get("FLAGS1", "") + "\t":
            cls = "C13-clap-reject:with_codegen_config"      # an empty codegen configuration prints `--generate ''` (however it became empty)
        ck.violation(cls, "flags printed for this configuration are rejected by the command-line parser", data)
        return
    if d.get("SAME_FLAGS") != "1":
        ck.violation("C13-flags-differ:" + first, "flags -> builder -> flags gives a different flag list", data)
    if d.get("SAME_BINDINGS") != "1":
        data["bindings1"] = dec(d.get("OUT1FULL", ""))[:1500]
        data["bindings2"] = dec(d.get("OUT2FULL", ""))[:1500]
        ck.violation("C13-bindings-differ:" + first, "the configuration rebuilt from its flags generates different bindings", data)
    if d.get("FLAGS1") != DEFAULT_FLAGS[0]:
        ck.nontrivial.add(json.dumps(calls))


DEFAULT_FLAGS = [None]


def dynamic(ck, t, done, quick):
    r = ck.rng
    d0 = rt1([])
    DEFAULT_FLAGS[0] = d0.get("FLAGS1")
    judge(ck, [], d0, "defaults")
    # defaults agree on both paths: parsing just the header gives the default flag list
    exe = os.path.join(vlib.TARGET, "debug", "bgv")
    rc, o, e = sh2([exe, "cli0", enc(HEADER)], timeout=60)
    ck.evaluations += 1
    if rc != 0 or o.strip() != (d0.get("FLAGS1") or "").strip():
        ck.violation("C13-defaults-differ", "builder_from_flags with only a header does not give Builder::default()'s flags", {"cli": [dec(x) for x in o.strip().split("\t")], "builder": [dec(x) for x in (d0.get("FLAGS1") or "").split("\t")]})
    cases = []
    enum_vals = {"EnumVariation": ["rust", "rust_non_exhaustive", "bitfield", "consts", "moduleconsts", "newtype", "newtype_global", "bitfield_global"],
                 "MacroTypeVariation": ["signed", "unsigned"], "AliasVariation": ["type_alias", "new_type", "new_type_deref"],
                 "NonCopyUnionStyle": ["bindgen_wrapper", "manually_drop"], "Formatter": ["none", "rustfmt", "prettyplease"],
                 "FieldVisibilityKind": ["private", "crate", "public"], "RustEdition": ["2018", "2021", "2024"],
                 "RustTarget": ["1.59", "1.64", "1.68", "1.71", "1.73", "1.77", "1.82", "1.85", "nightly"], "CodegenConfig": [str(i) for i in (0, 1, 2, 4, 8, 16, 32, 63, 21, 42)]}
    skip = {"depfile", "dump_preprocessed_input", "emit_clang_ast", "emit_ir", "emit_ir_graphviz", "rustfmt_configuration_file", "wrap_static_fns_path", "clang_macro_fallback_build_dir", "header", "time_phases"}
    singles = []
    for m, k in done:
        if m in skip:
            continue
        if k in enum_vals:
            for v in enum_vals[k]:
                singles.append(["%s=%s" % (m, v)])
        elif k == "bool":
            singles += [["%s=1" % m], ["%s=0" % m]]
        elif k == "unit":
            singles.append([m])
        else:
            a = arg_for(k, r)
            if a is not None:
                singles.append(["%s=%s" % (m, a)])
            if k == "str":
                singles.append(["%s=%s" % (m, "a b=c\"d")])
    for s in singles:
        cases.append((s, "single"))
    bools = [m for m, k in done if k == "bool" and m not in skip]
    pairs = list(itertools.combinations(bools, 2))
    if quick:
        r.shuffle(pairs)
        pairs = pairs[:120]
    for a, b in pairs:
        cases.append((["%s=%d" % (a, r.choice([0, 1])), "%s=%d" % (b, r.choice([0, 1]))], "bool-pair"))
    allm = [(m, k) for m, k in done if m not in skip]
    for _ in range(100 if quick else 3000):
        n = r.choice([2, 3, 5, 8, 12, 25])
        calls = []
        for m, k in r.sample(allm, min(n, len(allm))):
            a = arg_for(k, r)
            if a is None:
                continue
            calls.append(m if k == "unit" else "%s=%s" % (m, a))
        cases.append((calls, "random"))
    # several input headers and position-sensitive clang arguments: the header-ordering convention
    # (last header positional, the others via -include AFTER the user's clang arguments) must survive the round trip
    D = os.path.dirname(HEADER)
    first, second, cfg = (os.path.join(D, x) for x in ("first.h", "second.h", "cfg.h"))
    multi = [(["header=" + second, "clang_arg=-include", "clang_arg=" + cfg], first),
             (["header=" + second], first),
             (["clang_arg=-include", "clang_arg=" + cfg, "header=" + second, "derive_eq=1"], first),
             (["header=" + second, "clang_arg=-DHANDLE_IS_WIDE=1"], first),
             (["header=" + first, "header=" + second, "clang_arg=-include", "clang_arg=" + cfg], cfg),
             (["clang_arg=-imacros", "clang_arg=" + cfg, "header=" + second], first)]
    mres = [rt1(c, header=h) for c, h in multi]
    for (c, h), d in zip(multi, mres):
        judge(ck, ["<first header: %s>" % os.path.basename(h)] + c, d, "multi-header")
    # options that may be given several times and whose ORDER is data (raw lines at the top of a module, extern-block attributes, clang
    # arguments): three values in a non-sorted order, same module / several modules
    US = "\x1f"
    ordered = [["raw_line=// zz top", "raw_line=// aa top", "raw_line=// mm top"],
               ["enable_cxx_namespaces", "module_raw_line=root" + US + "pub type Zz = u8;", "module_raw_line=root" + US + "pub type Aa = u16;", "module_raw_line=root" + US + "pub type Mm = u32;"],
               ["enable_cxx_namespaces", "module_raw_line=root" + US + "pub const B_FIRST: u8 = 1;", "raw_line=// between", "module_raw_line=root" + US + "pub const A_SECOND: u8 = B_FIRST + 1;"],
               ["extern_fn_block_attrs=#[allow(unused)]", "extern_fn_block_attrs=#[allow(dead_code)]", "extern_fn_block_attrs=#[allow(clippy::all)]"],
               ["clang_arg=-DZ_LAST=1", "clang_arg=-DA_FIRST=2", "clang_arg=-UZ_LAST", "clang_arg=-DZ_LAST=3"],
               ["allowlist_type=with_.*", "allowlist_type=an_enum", "allowlist_function=plain_fn", "blocklist_type=a_union"],
               ["no_copy=with_field", "no_debug=with_field", "no_copy=an_.*", "no_default=with_field"]]
    for c in ordered:
        known_methods = {m for m, k in done}
        if all(x.split("=")[0] in known_methods for x in c):
            cases.append((c, "repeated-ordered"))
    # the leading-dash hazard, separately
    strm = [m for m, k in done if k == "str" and m not in skip]
    for m in r.sample(strm, min(len(strm), 6 if quick else 40)):
        cases.append((["%s=%s" % (m, r.choice(HAZARD))], "leading-dash"))
    with ThreadPoolExecutor(max_workers=vlib.NCPU) as ex:
        res = list(ex.map(lambda c: rt1(c[0]), cases))
    for (calls, ctx), d in zip(cases, res):
        judge(ck, calls, d, ctx)
    ck.notes["dynamic_cases"] = {"single": len(singles), "bool_pairs": len(pairs), "total": len(cases)}
    ck.sample({"builder_calls": cases[3][0], "flags": [dec(x) for x in res[3].get("FLAGS1", "").split("\t")]})
    # ---- CLI direction: each clap flag singly -> builder -> flags -> builder: same bindings
    cli_cases = []
    for c in t["cli"]:
        if not c["long"] or c["name"] in ("output", "depfile", "dump_preprocessed_input", "emit_clang_ast", "emit_ir", "emit_ir_graphviz", "verbose", "version", "generate_shell_completions",
                                           "rustfmt_configuration_file", "wrap_static_fns_path", "clang_macro_fallback_build_dir", "time_phases", "emit_diagnostics", "experimental"):
            continue
        ty = c["type"]
        fl = "--" + c["long"]
        if ty == "bool":
            cli_cases.append([fl])
        else:
            v = cli_value(c)
            if v is not None:
                cli_cases.append([fl] + v)
    def clirt(flags):
        rc, o, e = sh2([exe, "clirt", enc(HEADER)] + [enc(x) for x in flags], timeout=120, cwd=os.path.dirname(HEADER))
        return rc, o, e
    with ThreadPoolExecutor(max_workers=vlib.NCPU) as ex:
        cres = list(ex.map(clirt, cli_cases))
    for flags, (rc, o, e) in zip(cli_cases, cres):
        ck.evaluations += 1
        ck.nontrivial.add("cli:" + " ".join(flags))
        if "SAME_BINDINGS 1" in o and "SAME_FLAGS 1" in o:
            continue
        if "REJECTED0" in o or "PARSED0" not in o:
            ck.count("cli_flag_value_rejected_by_clap")   # my sample value is not valid for this flag: not a round-trip failure
            continue
        ck.violation("C13-cli-flag-lost:" + flags[0], "a command-line flag does not survive flags -> builder -> flags -> builder",
                     {"flags0": flags, "result": o[-1500:], "stderr": e[-300:]})


def cli_value(c):
    n = c["name"]
    special = {"default_enum_style": ["newtype"], "default_macro_constant_type": ["signed"], "default_alias_style": ["new_type"], "default_non_copy_union_style": ["manually_drop"],
               "rust_target": ["1.73"], "rust_edition": ["2018"], "formatter": ["none"], "generate": ["functions,types"], "override_abi": ["plain_fn=stdcall"],
               "default_visibility": ["crate"], "field_attr": ['with_field::a=#[doc = "x"]'], "module_raw_line": ["root", "pub type Zed = u8;"], "with_derive_custom": ["with_field=Hash"],
               "with_derive_custom_struct": ["with_field=Hash"], "with_derive_custom_enum": ["an_enum=Hash"], "with_derive_custom_union": ["a_union=Hash"],
               "with_attribute_custom": ['with_field=#[doc = "y"]'], "with_attribute_custom_struct": ['with_field=#[doc = "y"]'], "with_attribute_custom_enum": ['an_enum=#[doc = "y"]'],
               "with_attribute_custom_union": ['a_union=#[doc = "y"]'], "prefix_link_name": ["pfx_"], "dynamic_loading": ["Lib"], "wasm_import_module_name": ["m"],
               "extern_fn_block_attrs": ['#[link(name = "z")]'], "ctypes_prefix": ["cty"], "anon_fields_prefix": ["anon_"], "wrap_static_fns_suffix": ["_w"]}
    if n in special:
        return special[n]
    return ["with_field"]


def replay(ck, path):
    print(open(path).read())
    run(ck)
