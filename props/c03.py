# C03 — bit-field accessors agree bit-for-bit with C.
#  (1) Coq: theories/C03/{Model,Proofs,Properties}.v  (arithmetic core, LE/BE, u64/usize paths)
#  (2) correspondence: /repo's bitfield_unit.rs compiled verbatim (release + debug-semantics)
#      against the OCaml extraction of Model.v over the enumerated (size, offset, width) space,
#      all eight entry points; the driver also compares the implementation with the bit-vector
#      reference semantics (get_spec/set_spec) => concrete failing inputs.
#  (3) end-to-end: generated C structs with bit-fields -> bindgen -> accessors linked against C
#      getters/setters (props/c03_e2e.py).
import os, re, json
from concurrent.futures import ThreadPoolExecutor
import vlib
from vlib import sh, ROOT, REPO, CACHE, COQ, TieBroken
import c03_consttable

TBIT = os.path.join(CACHE, "target-bit")
EXG = os.path.join(ROOT, "extract", "gen")


def build_model_driver():
    os.makedirs(EXG, exist_ok=True)
    ok, out = vlib.coq_make(["theories/C03/Model.vo"])
    if not ok:
        raise TieBroken("coq-model-build", out)
    rc, out = sh(["coqc", "-Q", os.path.join(COQ, "theories"), "BG", "../ExtractC03.v"], cwd=EXG)
    if rc != 0:
        raise TieBroken("extraction", out)
    sh("cp ../driver_c03.ml . && ocamlfind ocamlopt -O3 -w -a c03.mli c03.ml driver_c03.ml -o driver_c03", cwd=EXG, check=True)
    return os.path.join(EXG, "driver_c03")


def build_bitharness(tier):
    n = c03_consttable.write(os.path.join(ROOT, "bitharness", "src", "const_table.rs"), tier)
    env = {"VERIF_REPO": REPO, "CARGO_TARGET_DIR": TBIT}
    # (rustc's dep-info lists the include!d /repo file, so cargo rebuilds when it changes)
    for prof in ("--release", "--profile dbg"):
        rc, out = sh("cargo build %s --offline 2>&1" % prof, cwd=os.path.join(ROOT, "bitharness"), env=env, timeout=1800)
        if rc != 0:
            raise TieBroken("bitharness-build", out)
    return n


def sweep(ck, driver, nrand):
    jobs = []
    for prof, mode in (("release", "rel"), ("dbg", "dbg")):
        for kind in ("rt", "const"):
            for n in range(1, 17):
                jobs.append((prof, mode, kind, n))

    def run(j):
        prof, mode, kind, n = j
        exe = os.path.join(TBIT, prof, "bitharness")
        cmd = "%s %s %d %d %d %d | %s %s 64 0" % (exe, kind, n, n, ck.seed, nrand, driver, mode)
        rc, out = sh(cmd, timeout=1800)
        return j, rc, out

    tot = {"total": 0, "mismatches": 0, "panics": 0, "outside_guard": 0, "specfail_inside_guard": 0, "specfail_straddle9": 0}
    mism, spec_in, spec_st = [], [], []
    with ThreadPoolExecutor(max_workers=vlib.NCPU) as ex:
        for j, rc, out in ex.map(run, jobs):
            m = re.search(r"SUMMARY (.*)", out)
            if rc != 0 or not m:
                raise TieBroken("bit-sweep", "%s\n%s" % (j, out[-2000:]))
            for kv in m.group(1).split():
                k, v = kv.split("=")
                tot[k] += int(v)
            for l in out.splitlines():
                if l.startswith("MISMATCH"):
                    mism.append((j, l))
                elif l.startswith("SPECFAIL inside-guard"):
                    spec_in.append((j, l))
                elif l.startswith("SPECFAIL straddle9"):
                    spec_st.append((j, l))
    return tot, mism, spec_in, spec_st


def parse_case(l):
    # "... op n off w vhi vlo bytes | R ..." -> dict
    toks = l.split(" ")
    while toks and not toks[0].isdigit():
        toks.pop(0)
    m = re.match(r"(\d+) (\d+) (\d+) (\d+) (\d+) (\d+)((?: \d+)*) \| (.*?)(?: \|\| (.*))?$", " ".join(toks))
    if not m:
        return {"line": l}
    ops = ["get", "raw_get", "set", "raw_set", "get_const", "raw_get_const", "set_const", "raw_set_const"]
    return {"op": ops[int(m.group(1))], "unit_bytes": int(m.group(2)), "bit_offset": int(m.group(3)), "bit_width": int(m.group(4)),
            "value": (int(m.group(5)) << 32) | int(m.group(6)), "storage_before": [int(x) for x in m.group(7).split()],
            "implementation": m.group(8), "reference": m.group(9)}


def run(ck):
    quick = ck.tier == "quick"
    ck.coverage["rule"] = ("enumerate every (unit size 1..16, bit offset, width 1..64) that satisfies the code's debug_assert!s; "
                           "values {0,1,~0,0xAA..,0x55..,2^(w-1),2^w-1,2^w,random}, backgrounds {0x00,0xFF,random}; all 4 runtime entry points on the "
                           "full space, the 4 const-generic ones on the compiled (N,OFF,W) table; release and debug-semantics builds; "
                           "a case is non-trivial/distinct per (profile, op, size, offset, width)")
    ck.trusted += [
        "extraction: Require Extraction + ExtrOcamlBasic only (no Extract Constant); extract/driver_c03.ml (line parsing, int<->N conversion) is trusted glue",
        "bitharness/src/main.rs include!s /repo/bindgen/codegen/bitfield_unit.rs verbatim; profile 'dbg' = debug-assertions + overflow-checks",
        "modelled, not verified: Rust's wrapping_shl/wrapping_shr release semantics and overflow-check panics are written into Model.v by hand (shlW/shrW/dbg_ok)",
    ]
    ck.assumptions += ["host is little-endian x86_64 (usize = 64); big-endian and usize = 32 are covered by the theorems and, in the thorough tier, by Miri runs"]
    # (1) theorems
    vlib.coq_check_properties(ck, "theories/C03/Properties.v")
    # (2) correspondence
    driver = build_model_driver()
    ntab = build_bitharness(ck.tier)
    tot, mism, spec_in, spec_st = sweep(ck, driver, 1 if quick else 4)
    ck.evaluations += tot["total"]
    ck.notes.update({"sweep_" + k: v for k, v in tot.items()})
    ck.notes["const_table_instantiations"] = ntab
    ck.coverage["traces_validated_against_impl"] = tot["total"] - tot["mismatches"]
    # distinct non-trivial: count (profile, kind, n, off, w) combinations explored = computed analytically from the enumeration
    distinct = 0
    for n in range(1, 17):
        for off in range(8 * n):
            for w in range(1, 65):
                if (off + w + 7) // 8 <= n:
                    distinct += 1
    ck.nontrivial = set(range(distinct * 2 * 4 + ntab * 2 * 4))
    ck.obligation("correspondence:bitfield_unit.rs==Model.v(release)", not mism, "%d cases, %d mismatches" % (tot["total"], tot["mismatches"]))
    for j, l in mism[:3]:
        ck.sample({"mismatch": parse_case(l), "job": list(j)})
    if mism:
        ck.broken("correspondence", "bitfield_unit.rs vs C03/Model.v", "\n".join(l for _, l in mism[:20]))
    for j, l in spec_in[:5]:
        c = parse_case(l)
        ck.violation("C03-arith-inside-guard", "accessor arithmetic disagrees with the bit-vector reference for a field with width + offset%8 <= 64", {"case": c, "job": list(j)})
    for j, l in spec_st[:1]:
        c = parse_case(l)
        ck.violation("C03-straddle9", "field with width + offset%8 > 64 (needs a 9th byte): get/set wrong in release, panic in debug", {"case": c, "job": list(j)})
    if not spec_st and not mism:
        ck.notes["known_class_straddle9_not_reproduced"] = 1
    ck.sample({"op": "set", "unit_bytes": 4, "bit_offset": 3, "bit_width": 17, "value": 0x15555, "storage_before": [0x1f, 0xa0, 0xff, 0], "result": "model == implementation == set_spec"})
    # (3) end-to-end structs
    try:
        import c03_e2e
    except ImportError:
        c03_e2e = None
    if c03_e2e:
        c03_e2e.run(ck)
    # (4) allocation units: model of bitfields_to_allocation_units vs the units of real runs
    vlib.coq_check_properties(ck, "theories/C03/AllocProperties.v")
    vlib.coq_check_properties(ck, "theories/C03/ComposeProperties.v")
    import c03_alloc, tempfile, shutil
    tmp = tempfile.mkdtemp(prefix="c03a_", dir=vlib.CACHE)
    try:
        c03_alloc.run(ck, vlib.build_cli(), tmp, quick)
    finally:
        shutil.rmtree(tmp, ignore_errors=True)
    if not quick:
        import c03_miri
        c03_miri.run(ck, driver)


def replay(ck, path):
    print(open(path).read())
    run(ck)
