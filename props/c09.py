# C09 — allowlisting yields a self-contained, minimal, consistent subset of bindings.
#  theorems: C09/Properties.v (traversal = reachability, closure, minimality, block beats allow, codegen ⊆ allowlisted, roots)
#  tie: H1 dump (ROOTS, real Trace edges, blocklisted/enabled flags) -> C09/Model.compute == the ALLOW / CODEGEN sets of the real run (in Coq)
#  black-box: generated declaration graphs with a known dependency relation x root subsets x regex forms:
#      emitted names == closure of the matched roots; every emitted item textually identical to the un-allowlisted run;
#      the output compiles on its own; whole-name anchoring; allowlist ∩ blocklist
import os, re, sys, json, glob, shlex, tempfile, shutil
from concurrent.futures import ThreadPoolExecutor
import vlib, irdump, e2e
from vlib import sh, sh2, ROOT, REPO, COQ, CACHE, TieBroken

NAMES = ["foo", "foobar", "foo_2", "bar", "barbaz", "qux", "Alpha", "AlphaBeta", "node", "node_list", "ctx", "ctx2", "item", "items", "zed"]


class Decls:
    def __init__(self, r, n):
        self.r = r
        names = r.sample(NAMES, min(n, len(NAMES)))
        self.items = {}   # name -> dict(kind, text, needs:set)
        self.order = []
        types = []
        for i, nm in enumerate(names):
            k = r.choice(["struct", "struct", "struct", "typedef", "typedef", "enum", "fn", "fn", "var", "const", "const"])
            if k in ("typedef", "fn", "var", "const") and not types and k != "fn":
                k = "struct"
            needs = set()

            def ty():
                x = r.random()
                if x < 0.4 or not types:
                    return r.choice(["int", "char", "double", "unsigned long"])
                t = r.choice(types)
                needs.add(t)
                kind = self.items[t]["kind"]
                spell = {"struct": "struct %s" % t, "enum": "enum %s" % t, "typedef": t}[kind]
                if kind == "struct" and r.random() < 0.5:
                    return spell + " *"
                return spell
            if k == "struct":
                fields = "".join(" %s f%d;" % (ty(), j) for j in range(r.randrange(1, 4)))
                text = "struct %s {%s };" % (nm, fields)
            elif k == "typedef":
                text = "typedef %s %s;" % (ty(), nm)
            elif k == "enum":
                text = "enum %s { %s_A, %s_B = 7 };" % (nm, nm, nm)
            elif k == "fn":
                args = ", ".join("%s a%d" % (ty(), j) for j in range(r.randrange(0, 3))) or "void"
                text = "%s %s(%s);" % (ty(), nm, args)
            elif k == "const":
                # a constant with a value: its declared type (a typedef of a scalar, an enum, or a plain scalar) is still needed
                scal = [t for t in types if self.items[t]["kind"] == "enum" or (self.items[t]["kind"] == "typedef" and self.items[t].get("scalar"))]
                if scal and r.random() < 0.8:
                    t = r.choice(scal)
                    needs.add(t)
                    spell = "enum %s" % t if self.items[t]["kind"] == "enum" else t
                else:
                    spell = r.choice(["int", "unsigned long", "char"])
                text = "static const %s %s = %d;" % (spell, nm, r.choice([0, 7, 21]))
            else:
                text = "extern %s %s;" % (ty(), nm)
            self.items[nm] = {"kind": k, "text": text, "needs": needs}
            if k == "typedef":
                base = text.split()[1]
                self.items[nm]["scalar"] = (not needs) or all(self.items[x]["kind"] == "enum" or self.items[x].get("scalar") for x in needs) and "*" not in text
            self.order.append(nm)
            if k in ("struct", "typedef", "enum"):
                types.append(nm)

    def header(self):
        return "\n".join(self.items[n]["text"] for n in self.order) + "\n"

    def closure(self, roots, blocked=()):
        seen, todo = set(), list(roots)
        while todo:
            x = todo.pop()
            if x in seen:
                continue
            seen.add(x)
            todo += list(self.items[x]["needs"])
        return {x for x in seen if x not in blocked}


def emitted_names(out):
    names = set()
    for m in re.finditer(r"pub (?:struct|union|type|fn|static(?: mut)?|enum|const|mod) (\w+)", out):
        names.add(m.group(1))
    for m in re.finditer(r"pub use self::\w+(?:::\w+)* as (\w+);", out):   # typedef of an enum / struct tag
        names.add(m.group(1))
    return names


def item_texts(out):
    """name -> normalised text of the item (attributes included), for the textual-identity clause"""
    res = {}
    for m in re.finditer(r"((?:#\[[^\]]*\]\s*)*)pub (struct|union|type|enum) (\w+)([^;{]*)(\{[^}]*\}|;)", out):
        res[m.group(3)] = re.sub(r"\s+", " ", m.group(0)).strip()
    for m in re.finditer(r"pub (fn|static(?: mut)?) (\w+)([^;]*);", out):
        res[m.group(2)] = re.sub(r"\s+", " ", m.group(0)).strip()
    return res


def header_flags(h):
    first = open(h, errors="replace").readline()
    m = re.match(r"//\s*bindgen-flags:\s*(.*)", first)
    fl = shlex.split(m.group(1)) if m else []
    cl = []
    if "--" in fl:
        i = fl.index("--")
        fl, cl = fl[:i], fl[i + 1:]
    if h.endswith(".hpp") and "-x" not in cl:
        cl = cl + ["-x", "c++"]
    if h.endswith(".hpp") and not any(a.startswith("-std") for a in cl):
        cl = cl + ["-std=c++14"]
    out, skip = [], 0
    for f in fl:
        if skip:
            skip -= 1
            continue
        if f in ("--depfile", "--wrap-static-fns-path", "--wrap-static-fns-suffix", "--rustfmt-configuration-file"):
            skip = 1
            continue
        if f in ("--wrap-static-fns",):
            continue
        out.append(f)
    return out, cl


def config_of(flags):
    cc = {"types": True, "vars": True, "methods": True, "ctors": True, "dtors": True, "functions": True}
    rec = True
    i = 0
    while i < len(flags):
        f = flags[i]
        if f == "--no-recursive-allowlist":
            rec = False
        if f == "--ignore-functions":
            cc["functions"] = False
        if f == "--ignore-methods":
            cc["methods"] = False
        if f == "--generate" and i + 1 < len(flags):
            want = flags[i + 1].split(",")
            cc = {"types": "types" in want, "vars": "vars" in want, "methods": "methods" in want, "ctors": "constructors" in want,
                  "dtors": "destructors" in want, "functions": "functions" in want}
            i += 1
        i += 1
    return cc, rec


def coq_case(d, flags):
    cc, rec = config_of(flags)
    B = lambda b: "true" if b else "false"
    ids = sorted(d.items)
    en = "[" + "; ".join(str(i) for i in ids if d.items[i]["enabled"]) + "]"
    bl = "[" + "; ".join(str(i) for i in ids if d.items[i]["blocklisted"]) + "]"
    roots = "[" + "; ".join(str(i) for i in d.roots) + "]"
    al = "[" + "; ".join(str(i) for i in d.allow) + "]"
    cg = "[" + "; ".join(str(i) for i in d.codegen) + "]"
    return ("(%s, {| cc_types := %s; cc_vars := %s; cc_methods := %s; cc_ctors := %s; cc_dtors := %s |}, %s, %s, %s, %s, %s)" % (
        B(rec), B(cc["types"]), B(cc["vars"]), B(cc["methods"]), B(cc["ctors"]), B(cc["dtors"]), en, bl, roots, al, cg))


def run(ck):
    quick = ck.tier == "quick"
    ck.coverage["rule"] = ("(a) IR dumps of repository headers (own flags) and of generated declaration graphs under random allowlists / blocklists: the model's traversal from the logged roots over "
                           "the real Trace edges must give the real allowlisted and code-generation sets; (b) generated graphs (structs, typedefs, enums, functions, variables with a known needs-relation; "
                           "names that are proper prefixes of one another) x allowlist forms (literal, prefix.*, alternation, character class) x kinds: emitted names == closure of matched roots, "
                           "textual identity with the full run, rustc compiles the subset, block beats allow; non-trivial = a strict, non-empty subset is selected; distinct by (header, flags)")
    ck.trusted += ["hook H1 (ROOTS line, real Trace edges, enabled / blocklisted / allowlisted / codegen flags)",
                   "the `regex` crate is an oracle: whole-name anchoring is observed through allowlisting behaviour only (not modelled in Coq)",
                   "rustc as the judge of 'the output compiles on its own'",
                   "translator/tr_c09.py: inventory of the tracer.visit / visit_kind calls of every `impl Trace` with their enclosing conditions, compared with the committed table data/c09/trace_edges.json (fails closed on shape changes)",
                   "modelled, not verified: the textual identity of each emitted item is compared, not proved (lazily assigned anonymous-item counters)"]
    vlib.coq_check_properties(ck, "theories/C09/Properties.v")
    # ---- static tie: the edges every `impl Trace` hands to a tracer (kinds, loops, conditions, early exits) == the committed table.
    # The model's traversal runs over the edges the implementation reports, so an edge that silently disappears (or becomes conditional)
    # cannot show in the dump correspondence; it shows here, and the C++ / C families below look for the concrete input.
    sys.path.insert(0, os.path.join(ROOT, "translator"))
    import tr_c09
    try:
        now = tr_c09.main(REPO)
        want = json.load(open(os.path.join(ROOT, "data", "c09", "trace_edges.json")))
        diff = []
        for k in sorted(set(now) | set(want)):
            a, b = want.get(k), now.get(k)
            if a != b:
                diff.append({"impl": k, "committed": [(x["kind"], x["under"]) for x in (a or [])], "source": [(x["kind"], x["under"]) for x in (b or [])]})
        ck.obligation("translator:impl Trace edges == committed table (data/c09/trace_edges.json)", not diff, "%d Trace impls, %d edges, %d impls differ" % (len(now), sum(len(v) for v in now.values()), len(diff)))
        if diff:
            ck.broken("tie", "the edges an `impl Trace` reports differ from the committed table", json.dumps(diff[:4], indent=1)[:6000])
    except (tr_c09.Shape, tr_c09.LexError, OSError, ValueError) as e:
        raise TieBroken("translator:impl Trace", repr(e))
    ok, out = vlib.coq_make(["theories/C09/Model.vo", "theories/C07/Exec.vo"])
    if not ok:
        raise TieBroken("coq-build:C09", out)
    bindgen = vlib.build_cli()
    r = ck.rng
    tmp = tempfile.mkdtemp(prefix="c09_", dir=CACHE)
    try:
        jobs = []
        hs = sorted(glob.glob(os.path.join(REPO, "bindgen-tests/tests/headers/*.h")) + glob.glob(os.path.join(REPO, "bindgen-tests/tests/headers/*.hpp")))
        hs = [h for h in hs if "objc" not in h]
        r.shuffle(hs)
        for h in hs[:50 if quick else 600]:
            fl, cl = header_flags(h)
            jobs.append((os.path.basename(h), h, fl, cl, os.path.dirname(h), None))
        graphs = []
        for gi in range(20 if quick else 300):
            g = Decls(r, r.choice([4, 6, 9, 12]))
            p = os.path.join(tmp, "d%d.h" % gi)
            open(p, "w").write(g.header())
            # allowlist scenarios
            scen = []
            names = g.order
            leaf_roots = [x for x in names if g.items[x]["kind"] in ("const", "var", "fn") and g.items[x]["needs"]]
            for si_ in range(4):
                roots = r.sample(names, r.choice([1, 1, 2, 3]))
                form = r.choice(["literal", "alt", "prefix", "class"])
                if si_ == 3:
                    # one scenario selects a single leaf declaration (constant, variable or function) that needs a type:
                    # everything it needs is then reachable only through it
                    if not leaf_roots:
                        continue
                    roots, form = [r.choice(leaf_roots)], "literal"
                pats = {}
                for x in roots:
                    kind = {"struct": "type", "typedef": "type", "enum": "type", "fn": "function", "var": "var", "const": "var"}[g.items[x]["kind"]]
                    pats.setdefault(kind, []).append(x)
                flags = []
                matched = set()
                for kind, xs in pats.items():
                    if form == "alt" and len(xs) > 1:
                        pat = "|".join(xs)
                    elif form == "prefix":
                        pat = xs[0][:3] + ".*"
                    elif form == "class":
                        pat = "[%s%s]%s" % (xs[0][0].lower(), xs[0][0].upper(), xs[0][1:])
                    else:
                        pat = None
                    plist = [pat] if pat else xs
                    for pp in plist:
                        flags += ["--allowlist-%s" % kind, pp]
                        for nm in names:
                            k2 = {"struct": "type", "typedef": "type", "enum": "type", "fn": "function", "var": "var", "const": "var"}[g.items[nm]["kind"]]
                            if k2 == kind and re.fullmatch(pp, nm):
                                matched.add(nm)
                blocked = set()
                if r.random() < 0.35:
                    b = r.choice(names)
                    k2 = {"struct": "type", "typedef": "type", "enum": "type", "fn": "function", "var": "var", "const": "var"}[g.items[b]["kind"]]
                    flags += ["--blocklist-%s" % k2, b]
                    blocked.add(b)
                scen.append((flags, matched, blocked))
            graphs.append((gi, g, p, scen))
            for si, (flags, matched, blocked) in enumerate(scen):
                jobs.append(("graph%d/s%d" % (gi, si), p, flags, [], tmp, (gi, si)))
            jobs.append(("graph%d/full" % gi, p, [], [], tmp, (gi, -1)))

        def one(j):
            label, h, fl, cl, cwd, key = j
            rc, out, err, d = irdump.run_dump(bindgen, h, fl, cl, cwd=cwd, log=os.path.join(tmp, "log_" + re.sub(r"\W", "_", label)))
            return j, rc, out, err, d
        with ThreadPoolExecutor(max_workers=vlib.NCPU) as ex:
            results = list(ex.map(one, jobs))
        bodies, metas, outs = [], [], {}
        for (label, h, fl, cl, cwd, key), rc, out, err, d in results:
            ck.evaluations += 1
            if key is not None:
                outs[key] = (rc, out, err)
            if rc != 0 or d is None or not d.complete or d.roots is None:
                ck.count("dump_skipped")
                continue
            if len(d.items) > (1200 if quick else 5000):
                ck.count("dump_skipped_too_large")
                continue
            if 0 < len(d.allow) < len(d.items):
                ck.nontrivial.add(label + " " + " ".join(fl))
            bodies.append("""From Coq Require Import NArith List Bool.
From BG Require Import C07.Model C07.Exec C09.Model.
Import ListNotations. Open Scope N_scope.
Definition items : list (N * item) :=
 %s.
Definition inl (l : list N) (n : N) : bool := existsb (N.eqb n) l.
Definition sub (a b : list N) : bool := forallb (fun x => inl b x) a.
Definition c : bool * cconfig * list N * list N * list N * list N * list N := %s.
Eval vm_compute in (match c with (rec, cc, en, bl, roots, al, cg) =>
   match compute (S (length items)) (mk_ir items) rec cc (inl en) (inl bl) roots with
   | Some (mal, mcg) => [filter (fun x => negb (inl al x)) mal; filter (fun x => negb (inl mal x)) al; filter (fun x => negb (inl cg x)) mcg; filter (fun x => negb (inl mcg x)) cg]
   | None => [[0]; [0]; [0]; [0]] end end).
""" % (d.coq_items(), coq_case(d, fl)))
            metas.append((label, fl, d))
        nbad = 0
        for (label, fl, d), (rc, out) in zip(metas, vlib.coq_eval_many("c09_dump", bodies, timeout=900)):
            if rc != 0:
                raise TieBroken("coq-eval:C09", "%s\n%s" % (label, out[-2000:]))
            ls = vlib.parse_coq_nlists(out)
            if not ls or ls[0] is None:
                raise TieBroken("coq-eval:C09-parse", out[-1500:])
            extra_m, miss_m, extra_c, miss_c = ls[0]
            if extra_m or miss_m or extra_c or miss_c:
                nbad += 1
                ck.broken("correspondence", "allowlist traversal vs C09/Model.compute", json.dumps(
                    {"header": label, "flags": fl, "model_only_allowlisted": extra_m[:8], "impl_only_allowlisted": miss_m[:8], "model_only_codegen": extra_c[:8], "impl_only_codegen": miss_c[:8],
                     "items": {str(i): {k: d.items[i].get(k) for k in ("ikind", "tkind", "name", "blocklisted", "enabled")} for i in (extra_m + miss_m + extra_c + miss_c)[:6] if i in d.items}}, default=str)[:3000])
        ck.coverage["traces_validated_against_impl"] = len(metas) - nbad
        ck.obligation("correspondence:allowlisted/codegen sets==C09/Model.compute on IR dumps", nbad == 0, "%d dumps, %d differ" % (len(metas), nbad))
        if metas:
            ck.sample({"dump": metas[0][0], "flags": metas[0][1], "roots": metas[0][2].roots[:10], "allowlisted": len(metas[0][2].allow), "codegen": len(metas[0][2].codegen)})
        # ---- black-box
        for gi, g, p, scen in graphs:
            full = outs.get((gi, -1))
            if not full or full[0] != 0:
                continue
            full_texts = item_texts(full[1])
            for si, (flags, matched, blocked) in enumerate(scen):
                o = outs.get((gi, si))
                ck.evaluations += 1
                if not o or o[0] != 0:
                    ck.violation("C09-allowlist-run-failed", "bindgen fails with an allowlist on a header it accepts without", {"header": g.header(), "flags": flags, "stderr": (o or (0, "", ""))[2][-400:]})
                    continue
                # blocklisted items are traversed THROUGH (what they need is still emitted: the user-supplied definition will
                # need it too) but never emitted themselves — this is what C09/Model.allowlisted states and proves
                expect = g.closure(matched, blocked)
                got = emitted_names(o[1]) & set(g.order)
                data = {"header": g.header(), "flags": flags, "matched_roots": sorted(matched), "blocklisted": sorted(blocked), "expected": sorted(expect), "emitted": sorted(got)}
                if got - expect:
                    cls = "C09-blocklisted-emitted" if (got - expect) & blocked else "C09-not-minimal"
                    ck.violation(cls, "an item unrelated to every allowlisted one (or blocklisted) is emitted: %s" % sorted(got - expect), data)
                if expect - got:
                    ck.violation("C09-not-closed", "an allowlisted item or something it needs is missing: %s" % sorted(expect - got), data)
                texts = item_texts(o[1])
                # (derives legitimately change when a member type is blocklisted: compare texts only without a blocklist)
                for nm in (sorted(got & expect) if not blocked else []):
                    if nm in texts and nm in full_texts and texts[nm] != full_texts[nm]:
                        ck.violation("C09-item-text-differs", "an emitted item is not textually identical to the same item of the un-allowlisted bindings", dict(data, item=nm, allowlisted=texts[nm], full=full_texts[nm]))
                        break
                # self-contained: must compile unless a blocklisted type is referenced (the user then supplies it)
                if not blocked:
                    src = os.path.join(tmp, "ab_%d_%d.rs" % (gi, si))
                    open(src, "w").write("#![allow(warnings)]\n" + o[1] + "\nfn main() {}\n")
                    rc, so, se = sh2(["rustc", "--edition", "2021", "-A", "warnings", "--emit", "metadata", "-o", src + ".rmeta", src], cwd=tmp, timeout=120)
                    if rc != 0:
                        ck.violation("C09-not-self-contained", "the allowlisted bindings do not compile on their own", dict(data, rustc=e2e.rustc_errors(se, 3)))
        ns_paths(ck, bindgen, tmp)
        cpp_class_closure(ck, bindgen, tmp)
        if graphs:
            ck.sample({"header": graphs[0][1].header(), "scenario": graphs[0][3][0][0], "expected_items": sorted(graphs[0][1].closure(graphs[0][3][0][1], graphs[0][3][0][2]))})
    finally:
        shutil.rmtree(tmp, ignore_errors=True)


def ns_paths(ck, bindgen, tmp):
    """C++ namespaces: every kind of item inside (nested) namespaces is selected by its namespace-qualified path and by nothing shorter —
    including the enumerators of unnamed enums, whose allowlisting goes through the variable patterns"""
    r = ck.rng
    nsA, nsB = r.choice(["na", "net", "outer"]), r.choice(["inner", "detail"])
    items = []      # (kind flag, path, identifier to look for, C++ text)
    text = "namespace %s {\n" % nsA
    tag = r.randrange(100, 999)
    text += "  struct S%d { int a; };\n  typedef long T%d;\n  int f%d(int);\n  extern int v%d;\n  enum { EA%d, EB%d = 4 };\n" % ((tag,) * 6)
    items += [("type", "%s::S%d" % (nsA, tag), "S%d" % tag), ("type", "%s::T%d" % (nsA, tag), "T%d" % tag), ("function", "%s::f%d" % (nsA, tag), "f%d" % tag),
              ("var", "%s::v%d" % (nsA, tag), "v%d" % tag), ("var", "%s::EB%d" % (nsA, tag), "EB%d" % tag), ("item", "%s::EA%d" % (nsA, tag), "EA%d" % tag)]
    text += "  namespace %s {\n    struct D%d { int q; };\n    enum { IP%d = 1, IQ%d };\n    int g%d(void);\n  }\n}\n" % (nsB, tag, tag, tag, tag)
    items += [("type", "%s::%s::D%d" % (nsA, nsB, tag), "D%d" % tag), ("var", "%s::%s::IQ%d" % (nsA, nsB, tag), "IQ%d" % tag), ("function", "%s::%s::g%d" % (nsA, nsB, tag), "g%d" % tag)]
    text += "struct G%d { int g; };\nenum { GX%d, GY%d };\nint h%d(void);\n" % ((tag,) * 4)
    items += [("type", "G%d" % tag, "G%d" % tag), ("var", "GY%d" % tag, "GY%d" % tag), ("function", "h%d" % tag, "h%d" % tag)]
    p = os.path.join(tmp, "nsp.hpp")
    open(p, "w").write(text)

    def defined(out, ident):
        return re.search(r"pub (?:struct|type|fn|static(?: mut)?|const|union) (?:\w+_)?%s\b" % ident, out) is not None
    for nsflag in ([], ["--enable-cxx-namespaces"]):
        for kind, path, ident in items:
            for form, pat, expect in (("qualified", path, True), ("bare", path.split("::")[-1], "::" not in path), ("suffix-only", "::".join(path.split("::")[1:]) if path.count("::") == 2 else None, False)):
                if pat is None or (form == "bare" and "::" not in path and False):
                    continue
                rc, out, err = sh2([bindgen, p, "--no-layout-tests", "--allowlist-%s" % kind, pat] + nsflag + ["--", "-x", "c++", "-std=c++14"], timeout=60)
                ck.evaluations += 1
                ck.nontrivial.add((text, kind, pat, bool(nsflag)))
                if rc != 0:
                    ck.violation("C09-allowlist-run-failed", "bindgen fails with an allowlist on a header it accepts without", {"header": text, "flags": ["--allowlist-%s" % kind, pat] + nsflag, "stderr": err[-300:]})
                    continue
                got = defined(out, ident)
                if got != expect:
                    ck.violation("C09-namespace-path:%s:%s" % (kind, "not-selected" if expect else "selected-by-shorter-name"),
                                 "an item inside a namespace is %s" % ("not selected by its namespace-qualified path" if expect else "selected by a pattern that does not match its whole path"),
                                 {"header": text, "flags": ["--allowlist-%s" % kind, pat] + nsflag + ["--", "-x", "c++"], "item_path": path, "looked_for": ident, "emitted": re.findall(r"pub (?:struct|type|fn|static|const|mod)[^;{(]*", out)[:12]})


CPP_EDGES = [  # (kind, C++ member text using Leaf_<kind>)
    ("field", "Leaf_field f;"), ("ptr_field", "Leaf_ptr_field *pf;"), ("array_field", "Leaf_array_field af[2];"), ("method_param", "int m1(Leaf_method_param a);"),
    ("method_ret", "Leaf_method_ret m2();"), ("method_ptr", "void m3(const Leaf_method_ptr *p) const;"), ("static_param", "static int s1(Leaf_static_param a);"),
    ("ctor_param", "K(Leaf_ctor_param a);"), ("virtual_param", "virtual int v1(Leaf_virtual_param a);"), ("pure_virtual_param", "virtual int pv1(Leaf_pure_virtual_param a) = 0;"),
    ("pure_virtual_ret", "virtual Leaf_pure_virtual_ret *pv2() = 0;"), ("template_arg", "Tm<Leaf_template_arg> t;"), ("template_ptr_arg", "Tm<Leaf_template_ptr_arg *> tp;"),
    ("static_member", "static Leaf_static_member sm;"), ("operator_param", "K &operator+=(const Leaf_operator_param &o);"), ("ref_param", "void m4(Leaf_ref_param &r);"),
    ("fnptr_field", "int (*cb)(Leaf_fnptr_field *);"), ("typedef_member", "typedef Leaf_typedef_member inner_t; inner_t it;"), ("enum_param", "void m5(LeafEnum_enum_param e);"),
    ("method_fnptr", "void m6(void (*cb2)(Leaf_method_fnptr));"), ("dtor", "~K();"),
    # integer typedefs named by a bit-field, by a plain member and by an array member (seed C09-4: the accessors of a bit-field name its declared type)
    ("bitfield_typedef", "Leaf_bitfield_typedef bt : 3; Leaf_bitfield_typedef bt2 : 5;"), ("int_typedef_field", "Leaf_int_typedef_field itf;"),
    ("bitfield_typedef_signed", "Leaf_bitfield_typedef_signed bs : 4;")]
INT_TYPEDEF_LEAVES = {"bitfield_typedef": "unsigned int", "int_typedef_field": "unsigned short", "bitfield_typedef_signed": "long"}


def cpp_class_closure(ck, bindgen, tmp):
    """C++: everything an allowlisted class needs, one leaf type per kind of edge (members, methods of every sort, template arguments,
    static members, base classes); the subset must compile alone under the options that decide which methods are emitted"""
    r = ck.rng
    edges = CPP_EDGES[:]
    r.shuffle(edges)
    text = "template<class T> struct Tm { T v; };\nstruct Unrelated { int u; };\nstruct Leaf_unused { int z; };\nint unrelated_fn(Unrelated *);\n"
    for kind, _ in edges:
        if kind == "dtor":
            continue
        if kind in INT_TYPEDEF_LEAVES:
            text += "typedef %s Leaf_%s;\n" % (INT_TYPEDEF_LEAVES[kind], kind)
            continue
        text += ("enum LeafEnum_%s { LE_%s };\n" % (kind, kind)) if kind == "enum_param" else ("struct Leaf_%s { int x_%s; };\n" % (kind, kind))
    text += "struct Leaf_base { int b; };\nstruct Leaf_base_method_param { int q; };\nclass Base : public Leaf_base { public: int bm(Leaf_base_method_param p); virtual ~Base(); };\n"
    text += "class K : public Base {\npublic:\n" + "".join("  %s\n" % t for _, t in edges) + "};\n"
    text += "struct Leaf_fn_param { int h; };\nint uses_k(K *k, Leaf_fn_param p);\n"
    p = os.path.join(tmp, "cppk.hpp")
    open(p, "w").write(text)
    # (operators get no binding by default, so what only an operator's signature names is not needed)
    leaves = ["Leaf_%s" % k for k, _ in edges if k not in ("dtor", "enum_param", "operator_param")] + ["LeafEnum_enum_param", "Leaf_base", "Leaf_base_method_param", "Base", "K"]
    for roots, extra_expect in ((["--allowlist-type", "K"], []), (["--allowlist-function", "uses_k"], ["Leaf_fn_param"])):
        for flags in ([], ["--vtable-generation"], ["--generate-pure-virtual-functions"], ["--generate-inline-functions", "--enable-cxx-namespaces"], ["--vtable-generation", "--generate-pure-virtual-functions", "--with-derive-default"]):
            fl = roots + ["--no-layout-tests"] + flags
            rc, out, err = sh2([bindgen, p] + fl + ["--", "-x", "c++", "-std=c++14"], timeout=120)
            ck.evaluations += 1
            ck.nontrivial.add(("cpp-class", text, tuple(fl)))
            data = {"header": text, "flags": fl + ["--", "-x", "c++", "-std=c++14"]}
            if rc != 0:
                ck.violation("C09-allowlist-run-failed", "bindgen fails with an allowlist on a header it accepts without", dict(data, stderr=err[-300:]))
                continue
            names = set(re.findall(r"pub (?:struct|union|type|enum|mod) (\w+)", out)) | set(re.findall(r"pub const (LeafEnum_\w+)_", out))
            missing = [l for l in leaves + extra_expect if l not in names and not (l.startswith("LeafEnum") and re.search(r"\b%s\b" % l, out))]
            if missing:
                ck.violation("C09-not-closed:cpp-class", "something an allowlisted class needs is missing: %s" % missing, dict(data, missing=missing, emitted=sorted(names)[:60]))
            extra = [n for n in ("Unrelated", "Leaf_unused", "Leaf_operator_param") if n in names] + (["unrelated_fn"] if re.search(r"pub fn unrelated_fn\b", out) else [])
            if extra:
                ck.violation("C09-not-minimal:cpp-class", "items unrelated to the allowlisted class are emitted: %s" % extra, dict(data, extra=extra))
            src = os.path.join(tmp, "cppk.rs")
            open(src, "w").write("#![allow(warnings)]\n" + out + "\nfn main() {}\n")
            rc, so, se = sh2(["rustc", "--edition", "2021", "-A", "warnings", "--emit", "metadata", "-o", src + ".rmeta", src], cwd=tmp, timeout=120)
            if rc != 0:
                ck.violation("C09-not-self-contained:cpp-class", "the allowlisted bindings of a C++ class do not compile on their own", dict(data, rustc=e2e.rustc_errors(se, 3)))


def replay(ck, path):
    print(open(path).read())
    run(ck)
