# C04 — functions and globals bind the right symbol with a call-compatible signature.
#  theorems: C04/Properties.v (which symbol a declaration binds: link_name decision, target prefixes, decorations; signature lowering)
#  ties: names_will_be_identical_after_mangling and the triple classification vs the model (inside Coq);
#        llvm_mangle vs clang (C side) and vs rustc (Rust side) on 8 targets; link attributes and signature shapes of real runs
#        (IR dump) vs the model; symbols referenced by the compiled bindings == symbols defined by the compiled C, per target
#  end to end (host): generated libraries; a C caller and a Rust caller through the bindings must print the same transcript
import os, re, sys, json, tempfile, shutil, random
from concurrent.futures import ThreadPoolExecutor
import vlib, irdump, c04gen
from vlib import sh, sh2, ROOT, REPO, COQ, CACHE, TieBroken

ABIS = [None, "C", "C-unwind", "stdcall", "fastcall", "thiscall", "vectorcall", "aapcs", "win64", "efiapi", "system", "?"]
CC_OF = {None: "CC_Var", "C": "CC_C", "C-unwind": "CC_C", "stdcall": "CC_Stdcall", "fastcall": "CC_Fastcall"}
# (triple, model mode); rustc +nightly and clang both know these
TARGETS = [("x86_64-unknown-linux-gnu", "ELF"), ("i686-unknown-linux-gnu", "ELF"), ("aarch64-unknown-linux-gnu", "ELF"), ("x86_64-apple-darwin", "MachO"),
           ("aarch64-apple-ios", "MachO"), ("i686-pc-windows-msvc", "WinX86"), ("i686-pc-windows-gnu", "WinX86"), ("x86_64-pc-windows-msvc", "Win64"),
           ("wasm32-unknown-unknown", "ELF"), ("riscv64gc-unknown-linux-gnu", "ELF")]
NOCORE = """#![feature(no_core, lang_items)]
#![no_core]
#![crate_type = "lib"]
#![allow(warnings)]
#[lang = "pointee_sized"] pub trait PointeeSized {}
#[lang = "meta_sized"] pub trait MetaSized: PointeeSized {}
#[lang = "sized"] pub trait Sized: MetaSized {}
#[lang = "copy"] pub trait Copy {}
impl Copy for i32 {}
pub mod cty { pub type c_int = i32; pub type c_uint = u32; pub type c_char = i8; pub type c_long = isize; }
"""


def cs(s):
    return vlib.coq_str(s)


def en(s):
    return vlib.enc(s) if s else "%"


def nm_symbols(obj, undefined):
    rc, o, e = sh2(["llvm-nm-14", "-u" if undefined else "--defined-only", obj], timeout=60)
    if rc != 0:
        return None
    return sorted({l.split()[-1] for l in o.splitlines() if l.strip()})


def clang_target(t):
    return {"riscv64gc-unknown-linux-gnu": "riscv64-unknown-linux-gnu"}.get(t, t)


# ---------------------------------------------------------------- part 2: pure decisions
def names_differential(ck, quick):
    r = ck.rng
    canon = ["foo", "f", "", "a_b", "type_", "x1", "_foo", "foo@4", "@foo"]
    cases = []
    for c in canon:
        ms = [c, "_" + c, "@" + c, "__" + c, "_" + c + "@4", "_" + c + "@", "_" + c + "@12", "@" + c + "@8", "_" + c + "@1x", "_" + c + "@@4", c + "@4", "_" + c + "x", "_" + c[:-1], "_",
              "_" + c + "@" + "9" * 25, "?" + c + "@@YAHH@Z", "_Z3" + c + "v", c + "_", "_" + c + "@0", "@" + c + "@", "_" + c.upper()]
        for m in ms:
            for a in ABIS:
                for tp in (0, 1):
                    cases.append((a, c, m, tp))
    for _ in range(300 if quick else 5000):
        c = "".join(r.choice("ab_@1") for _ in range(r.randrange(0, 5)))
        m = r.choice(["", "_", "@"]) + (c if r.random() < 0.7 else "".join(r.choice("ab_@1") for _ in range(r.randrange(0, 6)))) + r.choice(["", "", "@", "@4", "@12", "@x", "4"])
        cases.append((r.choice(ABIS), c, m, r.choice((0, 1))))
    lines = ["%s\t%s\t%s\t%d" % ("-" if a is None else a, en(c), en(m), tp) for a, c, m, tp in cases]
    impl = [int(x) for x in vlib.bgv("names", lines)]
    rows = "; ".join("(%s, %s, %s, %s, %s)" % (CC_OF.get(a, "CC_Other"), "true" if tp else "false", cs(c), cs(m), "true" if v else "false") for (a, c, m, tp), v in zip(cases, impl))
    body = """From Coq Require Import NArith List Bool.
From BG Require Import C04.Model.
Import ListNotations. Open Scope N_scope.
Definition rows : list (cc * bool * str * str * bool) := [%s].
Fixpoint idx (i : N) (l : list (cc * bool * str * str * bool)) : list N :=
  match l with [] => [] | (c, tp, can, m, v) :: l' => (if Bool.eqb (names_identical tp can m c) v then [] else [i]) ++ idx (i + 1) l' end.
Eval vm_compute in idx 0 rows.
""" % rows
    rc, out = vlib.coq_eval("c04_names", body, timeout=600)
    ls = vlib.parse_coq_nlists(out) if rc == 0 else []
    if rc != 0 or len(ls) != 1 or ls[0] is None:
        raise TieBroken("coq-eval:C04/names", out[-2000:])
    ck.evaluations += len(cases)
    for c in cases:
        ck.nontrivial.add(("names",) + c)
    for i in ls[0][:5]:
        a, c, m, tp = cases[i]
        ck.broken("correspondence", "names_will_be_identical_after_mangling vs C04/Model.names_identical", json.dumps({"abi": a, "canonical": c, "mangled": m, "underscore_prefix": tp, "impl": impl[i]}))
    ck.obligation("correspondence:names_will_be_identical_after_mangling==C04/Model.names_identical", not ls[0], "%d (abi, canonical, mangled, prefix) cases, %d mismatches" % (len(cases), len(ls[0])))
    ck.sample({"abi": cases[40][0], "canonical": cases[40][1], "mangled": cases[40][2], "prefix": cases[40][3], "identical": impl[40]})


def triple_checks(ck, tmp, quick):
    rc, out, err = sh2(["rustc", "--print", "target-list"], timeout=60)
    triples = [t for t in out.split() if t]
    extra = ["x86_64-apple-macosx10.15.0", "arm64-apple-ios", "i686-pc-win32", "x86_64-pc-win32", "i386-apple-darwin", "i686-w64-windows-gnu", "i686-pc-mingw32", "i586-unknown-linux",
             "x86_64-unknown-linux", "i686-unknown-windows-cygnus", "thumbv7-windows-msvc", "powerpc-apple-darwin8", "x86_64-darwin", "", "i686", "-apple-", "i686-linux-windowsish",
             "armv7-apple-watchos", "arm64_32-apple-watchos", "x86_64-apple-tvos", "aarch64-apple-visionos"]
    triples = sorted(set(triples + extra))
    impl = [int(x) for x in vlib.bgv("triple", [en(t) for t in triples])]
    body = """From Coq Require Import NArith List Bool.
From BG Require Import C04.Model.
Import ListNotations. Open Scope N_scope.
Definition rows : list (str * bool) := [%s].
Fixpoint idx (i : N) (l : list (str * bool)) : list N :=
  match l with [] => [] | (t, v) :: l' => (if Bool.eqb (triple_prefixes t) v then [] else [i]) ++ idx (i + 1) l' end.
Eval vm_compute in idx 0 rows.
""" % "; ".join("(%s, %s)" % (cs(t), "true" if v else "false") for t, v in zip(triples, impl))
    rc, out = vlib.coq_eval("c04_triples", body, timeout=600)
    ls = vlib.parse_coq_nlists(out) if rc == 0 else []
    if rc != 0 or len(ls) != 1 or ls[0] is None:
        raise TieBroken("coq-eval:C04/triples", out[-2000:])
    for i in ls[0][:5]:
        ck.broken("correspondence", "triple_prefixes_symbols_with_underscore vs C04/Model.triple_prefixes", json.dumps({"triple": triples[i], "impl": impl[i]}))
    ck.obligation("correspondence:triple classification==C04/Model.triple_prefixes", not ls[0], "%d triples, %d say prefix" % (len(triples), sum(impl)))
    ck.evaluations += len(triples)
    # oracle: what clang does for every triple it accepts; the classification must be sound (prefix claimed => clang prefixes)
    src = os.path.join(tmp, "sym.c")
    open(src, "w").write("int sym_probe(int a) { return a; }\nint sym_var = 3;\n")

    def probe(t):
        if not t or t.startswith("-"):
            return t, None
        o = os.path.join(tmp, "sym_%s.o" % re.sub(r"\W", "_", t))
        rc, _, e = sh2(["clang", "--target=" + t, "-c", "-o", o, src], timeout=60)
        if rc != 0:
            return t, None
        s = nm_symbols(o, False)
        os.remove(o)
        return t, s
    rs_src = os.path.join(tmp, "sym.rs")
    open(rs_src, "w").write(NOCORE + 'extern "C" { fn sym_probe(a: i32) -> i32; }\n#[no_mangle] pub unsafe extern "C" fn caller__() -> i32 { sym_probe(1) }\n')
    rc, out, err = sh2(["rustc", "+nightly", "--print", "target-list"], timeout=60)
    nightly = set(out.split())

    def probe_rs(t):
        if t not in nightly:
            return t, None
        o = os.path.join(tmp, "symrs_%s.o" % re.sub(r"\W", "_", t))
        rc, _, e = sh2(["rustc", "+nightly", "--target", t, "--emit=obj", "-C", "panic=abort", "-o", o, rs_src], timeout=120, cwd=tmp)
        if rc != 0:
            return t, None
        s = nm_symbols(o, True)
        try:
            os.remove(o)
        except OSError:
            pass
        return t, s
    with ThreadPoolExecutor(max_workers=vlib.NCPU) as ex:
        res = dict(ex.map(probe, triples))
        res_rs = dict(ex.map(probe_rs, triples))
    known, conservative, disagree = 0, [], []
    for t, v in zip(triples, impl):
        s, s2 = res.get(t), res_rs.get(t)
        votes = []
        if s:
            votes.append("_sym_probe" in s)
        if s2 and any("sym_probe" in x for x in s2):
            votes.append("_sym_probe" in s2)
        if not votes:
            continue
        known += 1
        ck.nontrivial.add(("triple", t))
        if len(set(votes)) > 1:
            # clang 14 does not know some newer Apple OS names and treats them as ELF; rustc knows its own targets
            disagree.append(t)
            pref = votes[-1]
        else:
            pref = votes[0]
        if v and not pref:
            ck.violation("C04-triple-unsound", "the target is classified as prefixing symbols with '_' but the compilers emit none: declarations whose C symbol starts with '_' bind the wrong symbol",
                         {"triple": t, "clang_symbols": s, "rustc_references": s2})
        if pref and not v:
            conservative.append(t)
    ck.notes["triples_with_a_compiler_oracle"] = known
    ck.notes["triples_where_clang14_and_rustc_disagree (rustc believed)"] = disagree
    ck.notes["triples_prefixed_but_classified_plain (harmless: redundant link_name)"] = conservative[:20]


def mangle_oracles(ck, tmp):
    """llvm_mangle (model) vs clang (C side) and rustc (Rust side) for every convention the model distinguishes"""
    names = ["foo", "type_", "_lead", "a1"]
    rows, metas = [], []
    cdecl = {"CC_C": "", "CC_Stdcall": "__attribute__((stdcall)) ", "CC_Fastcall": "__attribute__((fastcall)) "}
    rsabi = {"CC_C": "C", "CC_Stdcall": "stdcall", "CC_Fastcall": "fastcall"}

    def one(tm):
        t, mode = tm
        out = []
        x86_32 = t.startswith("i686")
        ccs = ["CC_C", "CC_Stdcall", "CC_Fastcall"] if x86_32 else ["CC_C"]
        csrc = os.path.join(tmp, "mo_%s.c" % t)
        rsrc = os.path.join(tmp, "mo_%s.rs" % t)
        c, rs, calls = "", NOCORE, ""
        expect = []
        for cc in ccs:
            for n in names:
                for nargs in ((0, 2, 3) if cc != "CC_C" else (1,)):
                    fn = "%s%s%d" % (n, {"CC_C": "c", "CC_Stdcall": "s", "CC_Fastcall": "f"}[cc], nargs)
                    c += "%sint %s(%s) { return 1; }\n" % (cdecl[cc], fn, ", ".join("int a%d" % i for i in range(nargs)) or "void")
                    rs += 'extern "%s" { fn %s(%s) -> i32; }\n' % (rsabi[cc], fn, ", ".join("a%d: i32" % i for i in range(nargs)))
                    calls += "%s(%s); " % (fn, ", ".join("0" for _ in range(nargs)))
                    expect.append((cc, fn, 4 * nargs))
        c += "int gvar = 1;\n"
        rs += 'extern "C" { static gvar: i32; }\n#[no_mangle] pub unsafe extern "C" fn caller__() -> i32 { %s gvar }\n' % calls
        expect.append(("CC_Var", "gvar", 0))
        open(csrc, "w").write(c)
        open(rsrc, "w").write(rs)
        co, ro = csrc[:-2] + ".o", rsrc[:-3] + "_rs.o"
        rc1, _, e1 = sh2(["clang", "--target=" + clang_target(t), "-c", "-o", co, csrc], timeout=120)
        rc2, _, e2 = sh2(["rustc", "+nightly", "--target", t, "--emit=obj", "-C", "panic=abort", "-o", ro, rsrc], timeout=300, cwd=tmp)
        cdef = nm_symbols(co, False) if rc1 == 0 else None
        rund = nm_symbols(ro, True) if rc2 == 0 else None
        return t, mode, expect, cdef, rund, (e1 + e2)[-600:]
    with ThreadPoolExecutor(max_workers=vlib.NCPU) as ex:
        res = list(ex.map(one, TARGETS))
    body_rows = []
    flat = []
    for t, mode, expect, cdef, rund, err in res:
        if cdef is None or rund is None:
            ck.count("mangle_oracle_target_skipped")
            ck.notes.setdefault("mangle_oracle_skipped", []).append({"target": t, "err": err[-200:]})
            continue
        for cc, fn, ab in expect:
            flat.append((t, mode, cc, fn, ab, cdef, rund))
            body_rows.append("(%s, %s, %s, %d)" % (mode, cc, cs(fn), ab))
    if len({t for t, *_ in flat}) < 6:
        raise TieBroken("mangle-oracles", "fewer than 6 targets could be compiled: %s" % ck.notes.get("mangle_oracle_skipped"))
    body = """From Coq Require Import NArith List Bool.
From BG Require Import C04.Model.
Import ListNotations. Open Scope N_scope.
Definition rows : list (mode * cc * str * N) := [%s].
Eval vm_compute in map (fun r => match r with (md, c, n, ab) => llvm_mangle md c n ab end) rows.
""" % "; ".join(body_rows)
    rc, out = vlib.coq_eval("c04_mangle", body, timeout=600)
    ls = vlib.parse_coq_nlists(out) if rc == 0 else []
    if rc != 0 or len(ls) != 1 or ls[0] is None or len(ls[0]) != len(flat):
        raise TieBroken("coq-eval:C04/mangle", out[-2000:])
    bad = 0
    for (t, mode, cc, fn, ab, cdef, rund), sym in zip(flat, ls[0]):
        s = bytes(sym).decode()
        ck.evaluations += 1
        ck.nontrivial.add(("mangle", t, cc, fn))
        if s not in cdef or s not in rund:
            bad += 1
            ck.broken("correspondence", "C04/Model.llvm_mangle vs clang and rustc", json.dumps({"target": t, "mode": mode, "cc": cc, "name": fn, "model": s, "clang_defines": [x for x in cdef if fn in x], "rustc_references": [x for x in rund if fn in x]}))
    ck.obligation("oracle:llvm_mangle==clang symbol==rustc symbol", bad == 0, "%d (target, convention, name) rows on %d targets" % (len(flat), len({t for t, *_ in flat})))


# ---------------------------------------------------------------- part 3: link attributes and signature shapes of real runs
def parse_decls(bindings):
    """every foreign fn / static: name -> (link_name attribute or None, text of the declaration)"""
    res = {}
    for m in re.finditer(r'((?:#\[[^\]]*\]\s*)*)pub (fn|static)\s+(mut\s+)?([A-Za-z_]\w*)\s*', bindings):
        attrs, kind, mut, name = m.groups()
        i, depth = m.end(), 0
        while i < len(bindings):
            ch = bindings[i]
            if ch in "([<{":
                depth += 1
            elif ch in ")]}":
                depth -= 1
            elif ch == ">" and bindings[i - 1] != "-":
                depth -= 1
            elif ch == ";" and depth <= 0:
                break
            i += 1
        rest = bindings[m.end():i]
        if "{" in rest:
            continue    # a function definition (inline wrapper), not a foreign declaration
        ln = re.search(r'#\[link_name\s*=\s*"((?:[^"\\]|\\.)*)"\]', attrs)
        link = None
        if ln:
            link = ln.group(1).replace("\\u{1}", "\x01")
        res[name] = {"kind": kind, "mut": bool(mut), "link": link, "rest": rest, "attrs": attrs}
    return res


def split_args(s):
    out, depth, cur = [], 0, ""
    prev = ""
    for ch in s:
        if ch in "(<[":
            depth += 1
        elif ch in ")]" or (ch == ">" and prev != "-"):
            depth -= 1
        prev = ch
        if ch == "," and depth == 0:
            out.append(cur.strip())
            cur = ""
        else:
            cur += ch
    if cur.strip():
        out.append(cur.strip())
    return out


def sig_shape(rest):
    """(list of per-argument codes, dots, return code) from `(a: T, ...) -> R`; codes: 1 = *const, 2 = *mut, 0 = other"""
    rest = rest.strip()
    if not rest.startswith("("):
        return None
    depth, i = 0, 0
    for i, ch in enumerate(rest):
        if ch == "(":
            depth += 1
        elif ch == ")":
            depth -= 1
            if depth == 0:
                break
    inner, tail = rest[1:i], rest[i + 1:].strip()
    args = split_args(inner)
    dots = bool(args and args[-1] == "...")
    if dots:
        args = args[:-1]
    codes = []
    for a in args:
        ty = a.split(":", 1)[1].strip() if ":" in a else a
        codes.append(1 if ty.startswith("*const") else 2 if ty.startswith("*mut") else 0)
    ret = tail[2:].strip() if tail.startswith("->") else None
    rc = 1 if ret is None else (0 if ret == "!" else 2)
    return codes, dots, rc


def canonical_kind(d, i, depth=0):
    it = d.items.get(i)
    if it is None or depth > 64 or it["ikind"] != "type":
        return it
    if it.get("tkind") in ("ResolvedTypeRef", "Alias", "TemplateAlias"):
        return canonical_kind(d, int(it["inner"]), depth + 1)
    return it


def dump_tie(ck, label, d, bindings, tp, header):
    """rows for the Coq evaluation of one run: link attributes and signature shapes"""
    decls = parse_decls(bindings)
    link_rows, sig_rows, metas = [], [], []
    for i, it in sorted(d.items.items()):
        if it["ikind"] not in ("function", "var") or not it["codegen"]:
            continue
        canon = it.get("canon")
        if canon is None or canon not in decls:
            continue
        dec = decls[canon]
        mangled = vlib.dec(it["mangled"]) if it.get("mangled", "-") != "-" else it["name"]
        explicit = vlib.dec(it["link"]) if it.get("link", "-") != "-" else None
        if it["ikind"] == "function":
            sig = d.items.get(int(it["sig"]))
            if sig is None or sig.get("tkind") != "Function":
                continue
            m = re.match(r"Ok\(Known\((\w+)\)\)", sig.get("abi", ""))
            abi = {"C": "C", "CUnwind": "C-unwind", "Stdcall": "stdcall", "Fastcall": "fastcall"}.get(m.group(1) if m else "", "?")
            cc = CC_OF.get(abi, "CC_Other")
            # signature shape
            params = []
            for a in irdump.idlist(sig["args"]):
                ak = canonical_kind(d, a)
                top = d.items.get(a)
                if ak is not None and ak.get("tkind") == "Array":
                    el = d.items.get(int(ak["inner"]))
                    params.append("PArray %s %s %s" % ("true" if el and el.get("const") == "1" else "false", "true" if top.get("const") == "1" else "false", ak["inner"]))
                elif ak is not None and ak.get("tkind") == "Pointer" and (canonical_kind(d, int(ak["inner"])) or {}).get("tkind") == "Function":
                    params.append("PFnPtr %d" % a)
                else:
                    params.append("POther %d" % a)
            rk = canonical_kind(d, int(sig["ret"]))
            void = rk is not None and rk.get("tkind") == "Void"
            sh = sig_shape(dec["rest"])
            if sh is not None and dec["kind"] == "fn":
                sig_rows.append("({| s_args := [%s]; s_variadic := %s; s_divergent := %s; s_ret := %s |}, %s, %s, %d)" % (
                    "; ".join(params), "true" if sig["variadic"] == "1" else "false", "true" if sig.get("divergent") == "1" else "false",
                    "CVoid" if void else "CValue %s" % sig["ret"], vlib.coq_nlist(sh[0]), "true" if sh[1] else "false", sh[2]))
                metas.append(("sig", canon, it, sig, dec))
        else:
            cc = "CC_Var"
        obs = dec["link"]
        if obs is not None and not obs.startswith("\x01"):
            # a non-verbatim attribute (static wrappers) is outside this model
            continue
        link_rows.append("(%s, %s, %s, %s, %s)" % (cc, cs(canon), cs(mangled), "None" if explicit is None else "(Some %s)" % cs(explicit), "None" if obs is None else "(Some %s)" % cs(obs[1:])))
        metas.append(("link", canon, it, None, dec))
    body = """From Coq Require Import NArith List Bool.
From BG Require Import C04.Model.
Import ListNotations. Open Scope N_scope.
Definition tp := %s.
Definition oeqb (a b : option str) := match a, b with None, None => true | Some x, Some y => str_eqb x y | _, _ => false end.
Definition links : list (cc * str * str * option str * option str) := [%s].
Fixpoint lidx (i : N) (l : list (cc * str * str * option str * option str)) : list N :=
  match l with [] => [] | (c, can, m, e, obs) :: l' => (if oeqb (link_attr tp c can m e) obs then [] else [i]) ++ lidx (i + 1) l' end.
Eval vm_compute in lidx 0 links.
Definition code (r : rarg) : N := match r with RPtr true _ => 1 | RPtr false _ => 2 | RTy _ => 0 end.
Definition rcode (r : rret) : N := match r with RNever => 0 | RUnit => 1 | RValue _ => 2 end.
Definition sigs : list (csig * list N * bool * N) := [%s].
Definition sig_ok (s : csig) (codes : list N) (dots : bool) (rc : N) : bool :=
  let l := lower_sig s in
  Nat.eqb (length (r_args l)) (length codes)
  && forallb (fun p => match fst p with RPtr _ _ => N.eqb (code (fst p)) (snd p) | RTy _ => true end) (combine (r_args l) codes)
  && forallb (fun p => match fst p with PFnPtr _ => N.eqb (snd p) 0 | _ => true end) (combine (s_args s) codes)
  && Bool.eqb (r_dots l) dots && N.eqb (rcode (r_ret l)) rc.
Fixpoint sidx (i : N) (l : list (csig * list N * bool * N)) : list N :=
  match l with [] => [] | (s, codes, dots, rc) :: l' => (if sig_ok s codes dots rc then [] else [i]) ++ sidx (i + 1) l' end.
Eval vm_compute in sidx 0 sigs.
""" % ("true" if tp else "false", "; ".join(link_rows), "; ".join(sig_rows))
    return body, metas, len(link_rows), len(sig_rows)


# ---------------------------------------------------------------- part 4: call compatibility on the host
OPTION_SETS = [("default", [], {}), ("attr-detection", ["--enable-function-attribute-detection"], {}), ("merge", ["--merge-extern-blocks"], {}), ("sort", ["--sort-semantically"], {}), ("merge+sort", ["--merge-extern-blocks", "--sort-semantically"], {}),
               ("c-naming", ["--c-naming"], {"c_naming": True}), ("unwind", ["--override-abi", "f.*=C-unwind"], {}), ("2018", ["--rust-edition", "2018", "--rust-target", "1.64"], {})]


def run_lib(bindgen, tmp, tag, seed, nfuncs, ncalls, optset, **kw):
    oname, flags, o = optset
    r = random.Random(seed)
    lib = c04gen.Lib(r, nfuncs, o, **kw)
    d = os.path.join(tmp, tag)
    os.makedirs(d)
    hdr, libc = lib.header(), lib.lib_c()
    cmain, rmain = lib.callers(ncalls)
    if o.get("c_naming"):
        rmain = rmain.replace("(s: cbarg)", "(s: struct_cbarg)")
    for n, t in (("lib.h", hdr), ("lib.c", libc), ("cmain.c", cmain), ("main.rs", rmain)):
        open(os.path.join(d, n), "w").write(t)
    res = {"header": hdr, "lib_c": libc, "cmain": cmain, "rmain": rmain, "flags": flags, "optset": oname, "lib": lib, "dir": d}
    # gcc is the reference C compiler here: clang 14 (LLVM 14) splits an __int128 argument between the last free register and
    # the stack, against the psABI (fixed in later LLVM releases, which rustc uses)
    rc, o1, e1 = sh2(["gcc", "-std=gnu11", "-w", "-c", "-o", "lib.o", "lib.c"], cwd=d, timeout=120)
    if rc != 0:
        res["gen_error"] = "lib.c: " + e1[-1500:]
        return res
    rc, o1, e1 = sh2(["gcc", "-std=gnu11", "-w", "-o", "cmain", "cmain.c", "lib.o"], cwd=d, timeout=120)
    if rc != 0:
        res["gen_error"] = "cmain.c: " + e1[-1500:]
        return res
    rc, o1, e1 = sh2(["./cmain"], cwd=d, timeout=60)
    res["c_out"], res["c_rc"] = o1, rc
    rc, out, err, dump = irdump.run_dump(bindgen, os.path.join(d, "lib.h"), flags + ["--allowlist-file", ".*/lib\\.h"], [], cwd=d, log=os.path.join(d, "log"))
    res["bindgen_rc"], res["bindings"], res["bindgen_err"], res["dump"] = rc, out, err, dump
    if rc != 0:
        return res
    open(os.path.join(d, "bindings.rs"), "w").write(out)
    ed = "2018" if "2018" in flags else "2021"
    rc, o2, e2 = sh2(["rustc", "--edition", ed, "-A", "warnings", "-C", "link-arg=lib.o", "-o", "rmain", "main.rs"], cwd=d, timeout=600)
    res["rustc_rc"], res["rustc_err"] = rc, e2
    if rc != 0:
        return res
    rc, o3, e3 = sh2(["./rmain"], cwd=d, timeout=60)
    res["r_out"], res["r_rc"] = o3, rc
    res["lib_syms"] = nm_symbols(os.path.join(d, "lib.o"), False)
    return res


def features_of(f):
    fs = set()
    for p in f["params"]:
        fs.add(p["k"])
        t = p.get("ty")
        while isinstance(t, c04gen.Td):
            t = t.target
        if isinstance(t, c04gen.Rec):
            fs.add("by-value-" + t.rkind)
        if isinstance(t, c04gen.Sc) and t.bits == 128:
            fs.add("int128")
    if f["variadic"]:
        fs.add("variadic")
    if f["asm"]:
        fs.add("asm-label")
    if c04gen.rust_name(f["name"]) != f["name"]:
        fs.add("renamed")
    r = f["ret"]
    if isinstance(r, tuple):
        fs.add("returns-fnptr:" + r[2])
        r = None
    for p in f["params"]:
        if p["k"] == "fnptr" and p.get("form", "inline") != "inline":
            fs.add("fnptr:" + p["form"])
    while isinstance(r, c04gen.Td):
        r = r.target
    if isinstance(r, c04gen.Rec):
        fs.add("returns-" + r.rkind)
    return sorted(fs)


def run(ck):
    quick = ck.tier == "quick"
    ck.coverage["rule"] = ("(a) every (ABI, canonical, mangled, prefix) combination of a structured name family plus random strings through the real decision function vs the model; every rustc target triple "
                           "through the real classifier vs the model and vs clang's actual prefixing; (b) llvm_mangle vs clang-defined and rustc-referenced symbols on 10 targets x conventions; "
                           "(c) generated C libraries (1..40 functions over the full scalar set, typedefs, enums, pointers with constness, array parameters, by-value structs and unions of 1..64 bytes, "
                           "callbacks, variadics, a noreturn function, globals; identifiers incl. Rust keywords, '$', leading underscores, asm labels) under 7 option sets: link attributes and signature "
                           "shapes vs the model (IR dump, inside Coq), symbols vs nm, and a C caller vs a Rust caller through the bindings printing the same transcript; (d) the same symbol comparison on "
                           "cross targets with rustc +nightly (no_core) and clang; non-trivial = a library with at least one call that passes arguments; distinct by generated text")
    ck.trusted += ["clang 14 and rustc 1.95 / nightly as oracles (what symbol a C definition gets; what symbol a Rust foreign declaration references; the calling convention itself)",
                   "llvm-nm for symbol tables", "hook H4 (names_identical, triple_prefixes_symbols) and hook H1 (dump: mangled / link names, signatures)",
                   "lib/c04gen.py: the generator of the library, of both callers and of the Rust-name expectation (rust_mangle transcribed by hand)",
                   "modelled, not verified: the actual parameter passing (exercised by the linked executables on the host only); C++ manglings are opaque strings to the model; "
                   "cross-target checks compare symbols, they execute nothing"]
    ck.coverage["rule"] += "; C++: generated classes (namespaces, several constructors, destructors, const / non-const / static member functions, overloads, reference and pointer parameters) called from C++ and through the bindings, identical transcripts, with and without --enable-cxx-namespaces; calling conventions on the host: an ms_abi / default-convention library (functions, typedef'd / inline / returned / passed / stored / global function pointers, callbacks written in Rust, aggregates by value) called from C and through the bindings, identical transcripts"
    vlib.coq_check_properties(ck, "theories/C04/Properties.v")
    vlib.build_harness()
    bindgen = vlib.build_cli()
    tmp = tempfile.mkdtemp(prefix="c04_", dir=CACHE)
    try:
        names_differential(ck, quick)
        triple_checks(ck, tmp, quick)
        mangle_oracles(ck, tmp)
        host_libs(ck, bindgen, tmp, quick)
        cross_symbols(ck, bindgen, tmp, quick)
        cpp_classes(ck, bindgen, tmp, quick)
        fixed_cases(ck, bindgen, tmp)
        callconv_host(ck, bindgen, tmp)
        import c04_abi
        vlib.coq_check_properties(ck, "theories/C04/AbiProperties.v")
        c04_abi.run(ck, bindgen, tmp, quick)
    finally:
        shutil.rmtree(tmp, ignore_errors=True)


def host_libs(ck, bindgen, tmp, quick):
    r = ck.rng
    jobs = []
    n = 14 if quick else 400
    for i in range(n):
        jobs.append(("L%d" % i, r.getrandbits(48), r.choice([1, 3, 8, 15, 25, 40]), 30 if quick else 60, OPTION_SETS[i % len(OPTION_SETS)] if i >= 2 else OPTION_SETS[0]))

    def one(j):
        tag, seed, nf, nc, opt = j
        try:
            return j, run_lib(bindgen, tmp, tag, seed, nf, nc, opt)
        except Exception as e:   # generator bug: reported as a broken tie below
            import traceback
            return j, {"gen_error": traceback.format_exc()[-1500:]}
    with ThreadPoolExecutor(max_workers=vlib.NCPU) as ex:
        results = list(ex.map(one, jobs))
    bodies, metas = [], []
    ncalls = 0
    for (tag, seed, nf, nc, opt), res in results:
        ck.evaluations += 1
        base = {"seed": seed, "nfuncs": nf, "ncalls": nc, "optset": opt[0], "flags": opt[1], "header": res.get("header", "")[:6000]}
        if "gen_error" in res:
            raise TieBroken("c04gen", res["gen_error"])
        ck.nontrivial.add(res["header"] + opt[0])
        if res["bindgen_rc"] != 0:
            ck.violation("C04-bindgen-failed", "bindgen fails on a generated library header", dict(base, stderr=res["bindgen_err"][-600:]))
            continue
        lib = res["lib"]
        decls = parse_decls(res["bindings"])
        # every declared function and global has a binding with the expected Rust name; globals keep their mutability
        for f in lib.funcs:
            rn = c04gen.rust_name(f["name"])
            if rn not in decls:
                ck.violation("C04-missing-binding", "a declared function has no binding under its expected Rust name", dict(base, function=f["name"], expected=rn))
        for g in lib.globals:
            rn = c04gen.rust_name(g["name"])
            dcl = decls.get(rn)
            if dcl is None or dcl["kind"] != "static":
                ck.violation("C04-missing-binding", "a declared global has no binding under its expected Rust name", dict(base, variable=g["name"], expected=rn))
            elif dcl["mut"] == g["const"]:
                ck.violation("C04-global-mutability", "a const global is bound as `static mut` or a mutable one as immutable", dict(base, variable=g["name"], const=g["const"], emitted=dcl["attrs"] + dcl["rest"]))
        fin = decls.get("finish")
        if "--enable-function-attribute-detection" in opt[1] and (not fin or not re.search(r"->\s*!", fin["rest"])):
            ck.violation("C04-noreturn", "a _Noreturn function is not bound as diverging", dict(base, emitted=fin and fin["rest"]))
        # symbol identity (ELF host): the symbol each declaration resolves to must be defined by the library
        syms = set(res.get("lib_syms") or [])
        if syms:
            for name, dcl in decls.items():
                sym = dcl["link"][1:] if dcl["link"] and dcl["link"].startswith("\x01") else (dcl["link"] or name)
                if sym not in syms:
                    ck.violation("C04-unbound-symbol", "a declaration resolves to a symbol the compiled C library does not define",
                                 dict(base, rust_name=name, resolves_to=sym, attrs=dcl["attrs"].strip()))
        if res.get("rustc_rc", 1) != 0:
            errs = re.findall(r"^error(?:\[E\d+\])?: .*$", res.get("rustc_err", ""), re.M)[:3]
            code = re.search(r"error\[(E\d+)\]", res.get("rustc_err", ""))
            und = re.findall(r"undefined (?:reference to|symbol:?) [`']?([^\s'`]+)", res.get("rustc_err", ""))
            ck.violation("C04-caller-does-not-build:%s" % (code.group(1) if code else ("link" if und else "other")), "the Rust caller does not compile or link against the bindings",
                         dict(base, rustc=errs, undefined=und[:5], stderr=res.get("rustc_err", "")[-1200:]))
        else:
            co, ro = res["c_out"].splitlines(), res["r_out"].splitlines()
            ncalls += len(co)
            if co != ro or res["c_rc"] != res["r_rc"]:
                k = next((i for i, (a, b) in enumerate(zip(co, ro)) if a != b), min(len(co), len(ro)))
                what = co[k] if k < len(co) else "(transcript ends)"
                m = re.match(r"call (\d+) (\w+) (\w+)", what)
                feats, fname = [], None
                if m:
                    cm = re.search(r"/\* call %s: (\S+) \*/" % m.group(1), res["cmain"])
                    fname = cm.group(1) if cm else None
                    f = next((x for x in lib.funcs if x["name"] == fname), None)
                    feats = features_of(f) if f else []
                    side = "arguments" if (k < len(ro) and ro[k].split()[2] != what.split()[2]) else "return-value"
                else:
                    side = what.split()[0] if what else "exit"
                ck.violation("C04-call-mismatch:%s:%s" % (side, "+".join(feats) or "plain"), "calling through the bindings does not behave like calling from C",
                             dict(base, first_difference={"c": what, "rust": ro[k] if k < len(ro) else "(transcript ends)"}, function=fname, features=feats,
                                  prototype=next((l for l in res["header"].splitlines() if fname and re.search(r"\b%s\(" % re.escape(fname), l)), None),
                                  binding=(decls.get(c04gen.rust_name(fname)) or {}).get("rest") if fname else None, exit_codes=[res["c_rc"], res["r_rc"]]))
        d = res.get("dump")
        if d is not None and d.complete:
            body, m, nl, ns = dump_tie(ck, tag, d, res["bindings"], False, res["header"])
            bodies.append(body)
            metas.append((tag, base, m, nl, ns))
    ck.notes["host_transcript_lines_compared"] = ncalls
    judge_dump_ties(ck, "c04_host", bodies, metas)
    if results:
        (tag, seed, nf, nc, opt), res = results[0]
        ck.sample({"functions": nf, "calls": nc, "options": opt[0], "first_transcript_lines": res.get("c_out", "").splitlines()[:3]})


def judge_dump_ties(ck, prefix, bodies, metas):
    ok, out = vlib.coq_make(["theories/C04/Model.vo"])
    if not ok:
        raise TieBroken("coq-build:C04", out)
    evs = vlib.coq_eval_many(prefix, bodies, timeout=600)
    nl = ns = 0
    bad = 0
    for (tag, base, m, l, s), (rc, out) in zip(metas, evs):
        ls = vlib.parse_coq_nlists(out) if rc == 0 else []
        if rc != 0 or len(ls) != 2 or any(x is None for x in ls):
            raise TieBroken("coq-eval:C04/dump", out[-2000:])
        nl += l
        ns += s
        links = [x for x in m if x[0] == "link"]
        sigs = [x for x in m if x[0] == "sig"]
        for i in ls[0][:3]:
            bad += 1
            _, canon, it, _, dec = links[i]
            ck.broken("correspondence", "link_name attribute vs C04/Model.link_attr", json.dumps(dict(base, header=None, rust_name=canon, name=it["name"], mangled=it.get("mangled"), emitted=dec["attrs"].strip()), default=str)[:2500])
        for i in ls[1][:3]:
            bad += 1
            _, canon, it, sig, dec = sigs[i]
            ck.broken("correspondence", "emitted signature vs C04/Model.lower_sig", json.dumps(dict(base, header=None, rust_name=canon, sig={k: sig.get(k) for k in ("args", "variadic", "divergent", "ret")}, emitted=dec["rest"]), default=str)[:2500])
    ck.obligation("correspondence:%s link attributes + signature shapes == C04/Model" % prefix, bad == 0, "%d runs, %d declarations, %d signatures" % (len(metas), nl, ns))


def cross_symbols(ck, bindgen, tmp, quick):
    """per target: symbols referenced by the compiled bindings == symbols defined by the compiled C"""
    r = ck.rng
    tps = dict(zip([t for t, _ in TARGETS], [int(x) for x in vlib.bgv("triple", [vlib.enc(clang_target(t)) for t, _ in TARGETS])]))
    jobs = []
    for rep in range(1 if quick else 6):
        for t, mode in TARGETS:
            jobs.append((t, mode, r.getrandbits(32), rep))

    def one(j):
        t, mode, seed, rep = j
        rr = random.Random(seed)
        d = os.path.join(tmp, "x_%s_%d" % (t, rep))
        os.makedirs(d)
        x86_32 = t.startswith("i686")
        names = ["f%d" % i for i in range(4)] + rr.sample(["type", "match", "fn", "loop", "self", "crate", "a$b", "_lead", "__dunder", "trail_", "x$", "try", "dyn", "async", "_"], 5)
        h, calls = "", ""
        for k, n in enumerate(names):
            conv = rr.choice(["", "", "__attribute__((stdcall)) ", "__attribute__((fastcall)) "]) if x86_32 and "windows" in t else ""
            nargs = rr.choice([0, 1, 2, 3])
            asm = rr.choice([None, None, None, "_" + re.sub(r"\W", "x", n), re.sub(r"\W", "x", n) + "_x"]) if not conv else None
            if asm == c04gen.rust_name(n):
                asm = None        # a label equal to the Rust name on a prefixed target is the documented corner (fixed case below)
            h += "%sint %s(%s)%s;\n" % (conv, n, ", ".join("int a%d" % i for i in range(nargs)) or "void", (' __asm__("%s")' % asm) if asm else "")
            calls += "%s(%s); " % (c04gen.rust_name(n), ", ".join("0" for _ in range(nargs)))
        gl = rr.sample(["gv", "type_g", "g$v", "_gv", "static_"], 3)
        for g in gl:
            asm = rr.choice([None, None, "_" + re.sub(r"\W", "x", g)])
            h += "extern int %s%s;\n" % (g, (' __asm__("%s")' % asm) if asm else "")
            calls += "let _ = %s; " % c04gen.rust_name(g)
        open(os.path.join(d, "x.h"), "w").write(h)
        cdef = re.sub(r"^((?:__attribute__\(\(\w+\)\) )?int \w[\w$]*\([^)]*\))( __asm__\(\"[^\"]*\"\))?;", lambda m: "%s%s;\n%s { return 1; }" % (m.group(1), m.group(2) or "", m.group(1)), h, flags=re.M)
        cdef = re.sub(r"^extern int (\w[\w$]*)( __asm__\(\"[^\"]*\"\))?;", lambda m: "extern int %s%s;\nint %s = 1;" % (m.group(1), m.group(2) or "", m.group(1)), cdef, flags=re.M)
        open(os.path.join(d, "x.c"), "w").write(cdef)
        rc1, _, e1 = sh2(["clang", "--target=" + clang_target(t), "-fdollars-in-identifiers", "-w", "-c", "-o", "x.o", "x.c"], cwd=d, timeout=120)
        rc, out, err, dump = irdump.run_dump(bindgen, os.path.join(d, "x.h"), ["--ctypes-prefix", "cty", "--no-layout-tests"], ["--target=" + clang_target(t), "-fvisibility=default"], cwd=d, log=os.path.join(d, "log"))
        res = {"t": t, "mode": mode, "header": h, "rc": rc, "bindings": out, "err": err, "dump": dump, "clang_rc": rc1, "clang_err": e1}
        if rc == 0 and rc1 == 0:
            body = re.sub(r"^/\*.*?\*/", "", out, flags=re.S)
            open(os.path.join(d, "x.rs"), "w").write(NOCORE + body + "\n#[no_mangle] pub unsafe extern \"C\" fn caller__() { %s }\n" % calls)
            rc2, _, e2 = sh2(["rustc", "+nightly", "--edition", "2021", "--target", t, "--emit=obj", "-C", "panic=abort", "-o", "x_rs.o", "x.rs"], cwd=d, timeout=300)
            res["rustc_rc"], res["rustc_err"] = rc2, e2
            res["cdef"] = nm_symbols(os.path.join(d, "x.o"), False)
            res["rund"] = nm_symbols(os.path.join(d, "x_rs.o"), True) if rc2 == 0 else None
        return j, res
    with ThreadPoolExecutor(max_workers=vlib.NCPU) as ex:
        results = list(ex.map(one, jobs))
    bodies, metas = [], []
    done = 0
    for (t, mode, seed, rep), res in results:
        ck.evaluations += 1
        base = {"target": t, "header": res["header"], "flags": ["--", "--target=" + clang_target(t)]}
        if res["clang_rc"] != 0 or res["rc"] != 0:
            ck.count("cross_target_skipped")
            ck.notes.setdefault("cross_skipped", []).append({"target": t, "err": (res["clang_err"] or res["err"])[-200:]})
            continue
        if res.get("rustc_rc") != 0:
            ck.violation("C04-cross-bindings-do-not-compile", "the bindings for a cross target are rejected by rustc", dict(base, rustc=re.findall(r"^error.*$", res.get("rustc_err", ""), re.M)[:3]))
            continue
        done += 1
        ck.nontrivial.add(("cross", t, res["header"]))
        ignore = {"_GLOBAL_OFFSET_TABLE_", "__stack_pointer", "__memory_base", "__table_base", "__indirect_function_table"}
        rund = {s for s in res["rund"] if s not in ignore}
        cdef = set(res["cdef"])
        missing = sorted(rund - cdef)
        decls = parse_decls(res["bindings"])
        # the documented corner: on a prefixed target a declaration whose Rust name equals its (already prefixed / labelled) C symbol gets
        # no link_name, so rustc prefixes it once more (`int _(void);` -> Rust `__` == symbol `__` -> `___`)
        corner = [s for s in missing if s.startswith("_") and s[1:] in decls and decls[s[1:]]["link"] is None and s[1:] in cdef]
        if corner:
            ck.violation("C04-prefixed-target-rust-name-equals-symbol", "on a prefixing target a declaration whose Rust name equals its C symbol is bound without link_name, so rustc references `_` + name "
                         "(C04/Properties.v equal_on_prefixed_refuted)", dict(base, referenced_but_undefined=corner, c_defines=sorted(cdef)))
            missing = [s for s in missing if s not in corner]
        if missing:
            which = [n for n, dcl in decls.items() if any(n.strip("_") in s or (dcl["link"] or "").strip("\x01") == s for s in missing)]
            ck.violation("C04-cross-unbound-symbol:%s" % mode, "on a cross target the compiled bindings reference a symbol the compiled C does not define",
                         dict(base, referenced_but_undefined=missing, c_defines=sorted(cdef), declarations={n: decls[n]["attrs"].strip() for n in which[:6]}))
        d = res.get("dump")
        if d is not None and d.complete:
            body, m, nl, ns = dump_tie(ck, t, d, res["bindings"], bool(tps[t]), res["header"])
            bodies.append(body)
            metas.append((t, base, m, nl, ns))
    if done < 6:
        raise TieBroken("cross-targets", "only %d cross-target runs could be compiled: %s" % (done, ck.notes.get("cross_skipped")))
    judge_dump_ties(ck, "c04_cross", bodies, metas)
    ck.notes["cross_target_runs"] = done


def cpp_classes(ck, bindgen, tmp, quick):
    """C++ member functions, static member functions, constructors and destructors: called from C++ and through the bindings"""
    r = ck.rng
    jobs = [(i, r.getrandbits(40), r.choice([1, 2, 3]), i % 2 == 1) for i in range(6 if quick else 120)]

    def one(j):
        i, seed, ncls, nsmode = j
        lib = c04gen.CppLib(random.Random(seed), ncls, nsmode)
        d = os.path.join(tmp, "cpp%d" % i)
        os.makedirs(d)
        hdr, libcpp = lib.header(), lib.lib_cpp()
        cmain, rmain = lib.callers()
        for n, t in (("lib.hpp", hdr), ("lib.cpp", libcpp), ("cmain.cpp", cmain), ("main.rs", rmain)):
            open(os.path.join(d, n), "w").write(t)
        res = {"header": hdr, "nsmode": nsmode}
        cxx = ["clang++", "-std=c++14", "-fno-exceptions", "-fno-rtti", "-w"]
        rc, o, e = sh2(cxx + ["-c", "-o", "lib.o", "lib.cpp"], cwd=d, timeout=120)
        if rc != 0:
            res["gen_error"] = "lib.cpp: " + e[-1200:]
            return j, res
        rc, o, e = sh2(cxx + ["-o", "cmain", "cmain.cpp", "lib.o"], cwd=d, timeout=120)
        if rc != 0:
            res["gen_error"] = "cmain.cpp: " + e[-1200:]
            return j, res
        rc, o, e = sh2(["./cmain"], cwd=d, timeout=60)
        res["c_out"] = o
        fl = ["--no-layout-tests"] + (["--enable-cxx-namespaces"] if nsmode else [])
        rc, out, err = sh2([bindgen, os.path.join(d, "lib.hpp")] + fl + ["--", "-x", "c++", "-std=c++14"], cwd=d, timeout=120)
        res["flags"], res["rc"], res["bindings"], res["err"] = fl, rc, out, err
        if rc != 0:
            return j, res
        open(os.path.join(d, "bindings.rs"), "w").write(out)
        rc, o2, e2 = sh2(["rustc", "--edition", "2021", "-A", "warnings", "-C", "link-arg=lib.o", "-o", "rmain", "main.rs"], cwd=d, timeout=600)
        res["rustc_rc"], res["rustc_err"] = rc, e2
        if rc == 0:
            rc, o3, e3 = sh2(["./rmain"], cwd=d, timeout=60)
            res["r_out"], res["r_rc"] = o3, rc
        return j, res
    with ThreadPoolExecutor(max_workers=vlib.NCPU) as ex:
        results = list(ex.map(one, jobs))
    lines = 0
    for (i, seed, ncls, nsmode), res in results:
        ck.evaluations += 1
        if "gen_error" in res:
            raise TieBroken("c04gen-cpp", res["gen_error"] + "\n" + res["header"][:1500])
        base = {"seed": seed, "header": res["header"][:5000], "flags": res["flags"] + ["--", "-x", "c++"]}
        ck.nontrivial.add(res["header"] + str(nsmode))
        if res["rc"] != 0:
            ck.violation("C04-bindgen-failed", "bindgen fails on a generated C++ class header", dict(base, stderr=res["err"][-500:]))
            continue
        if res["rustc_rc"] != 0:
            code = re.search(r"error\[(E\d+)\]", res["rustc_err"])
            und = re.findall(r"undefined (?:reference to|symbol:?) [`']?([^\s'`]+)", res["rustc_err"])
            ck.violation("C04-cpp-caller-does-not-build:%s" % (code.group(1) if code else ("link" if und else "other")), "the Rust caller of generated C++ member functions does not compile or link",
                         dict(base, rustc=re.findall(r"^error(?:\[E\d+\])?: .*$", res["rustc_err"], re.M)[:3], undefined=und[:5], stderr=res["rustc_err"][-900:]))
            continue
        co, ro = res["c_out"].splitlines(), res["r_out"].splitlines()
        lines += len(co)
        if co != ro:
            k = next((q for q, (a, b) in enumerate(zip(co, ro)) if a != b), min(len(co), len(ro)))
            ck.violation("C04-cpp-call-mismatch", "calling C++ member functions / constructors through the bindings does not behave like calling them from C++",
                         dict(base, first_difference={"cpp": co[k] if k < len(co) else "(ends)", "rust": ro[k] if k < len(ro) else "(ends)"}, exit=res.get("r_rc")))
    ck.notes["cpp_transcript_lines_compared"] = lines


def fixed_cases(ck, bindgen, tmp):
    """documented corners (known findings) and regression inputs of the repaired defect"""
    d = os.path.join(tmp, "fixed")
    os.makedirs(d)
    # repaired: 9285a69d
    open(os.path.join(d, "asm.h"), "w").write('int foo(int) __asm__("_foo");\nextern int bar __asm__("_bar");\n')
    rc, out, err = sh2([bindgen, os.path.join(d, "asm.h")], timeout=60)
    decls = parse_decls(out)
    ck.evaluations += 1
    for n, sym in (("foo", "_foo"), ("bar", "_bar")):
        got = (decls.get(n) or {}).get("link")
        if got != "\x01" + sym:
            ck.violation("C04-elf-underscore-asm-label", "on ELF a declaration whose C symbol is `_name` is bound without link_name, i.e. to the symbol `name`",
                         {"header": open(os.path.join(d, "asm.h")).read(), "declaration": n, "link_name": got, "expected": sym})
    # corner 1: a prefixed target and an asm label equal to the Rust name
    open(os.path.join(d, "eq.h"), "w").write('int foo(int) __asm__("foo");\n')
    rc, out, err = sh2([bindgen, os.path.join(d, "eq.h"), "--", "--target=x86_64-apple-darwin"], timeout=60)
    decls = parse_decls(out)
    ck.evaluations += 1
    if rc == 0 and (decls.get("foo") or {}).get("link") is None:
        ck.violation("C04-prefixed-target-rust-name-equals-symbol", "on a Mach-O target `int foo(int) __asm__(\"foo\")` (symbol `foo`) is bound without link_name, so rustc references `_foo` "
                     "(C04/Properties.v equal_on_prefixed_refuted)", {"header": 'int foo(int) __asm__("foo");', "flags": ["--", "--target=x86_64-apple-darwin"], "emitted": out[-300:]})
    # corner 2: distrusted mangling + renamed item on a prefixed target
    open(os.path.join(d, "kw.h"), "w").write("int type(int);\n")
    rc, out, err = sh2([bindgen, os.path.join(d, "kw.h"), "--distrust-clang-mangling", "--", "--target=x86_64-apple-darwin"], timeout=60)
    decls = parse_decls(out)
    ck.evaluations += 1
    if rc == 0 and (decls.get("type_") or {}).get("link") == "\x01type":
        ck.violation("C04-distrust-mangling-renamed-on-prefixed-target", "with --distrust-clang-mangling on a Mach-O target a renamed function gets the verbatim link_name `type` although its symbol is `_type` "
                     "(C04/Properties.v fallback_renamed_prefixed_refuted)", {"header": "int type(int);", "flags": ["--distrust-clang-mangling", "--", "--target=x86_64-apple-darwin"], "emitted": out[-300:]})
    # globals keep their mutability: a non-const variable with an initialiser is still a variable that C code may change
    open(os.path.join(d, "gv.h"), "w").write("int counter_init = 5;\nstatic int static_init = 6;\nextern int plain_extern;\nconst int really_const = 7;\nunsigned long long big_init = 18446744073709551615UL;\n")
    rc, out, err = sh2([bindgen, os.path.join(d, "gv.h")], timeout=60)
    ck.evaluations += 1
    ck.nontrivial.add("initialised-globals")
    for nm in ("counter_init", "big_init"):
        if re.search(r"pub const %s\b" % nm, out):
            ck.violation("C04-initialised-global-as-const", "a non-const global with an initialiser (`int counter_init = 5;`) is emitted as a Rust `const` holding the initialiser instead of a `static mut` bound to the symbol: "
                         "the binding neither refers to the C object nor has its mutability", {"header": open(os.path.join(d, "gv.h")).read(), "emitted": re.findall(r"pub (?:const|static)[^;]*;", out)})
            break
    if not re.search(r"pub static mut plain_extern\b", out) or not re.search(r"pub const really_const\b|pub static really_const\b", out):
        ck.violation("C04-global-mutability", "an extern int is not `static mut` or a const int is not immutable", {"emitted": re.findall(r"pub (?:const|static)[^;]*;", out)})
    # --prefix-link-name: the binding must reach the prefixed symbol
    open(os.path.join(d, "p.h"), "w").write("int plain(int);\n")
    rc, out, err = sh2([bindgen, os.path.join(d, "p.h"), "--prefix-link-name", "pre_"], timeout=60)
    decls = parse_decls(out)
    ck.evaluations += 1
    if rc != 0 or (decls.get("plain") or {}).get("link") not in ("\x01pre_plain", "pre_plain"):
        ck.violation("C04-prefix-link-name", "--prefix-link-name does not produce the prefixed symbol", {"emitted": out[-300:], "stderr": err[-300:]})


CC_H = """#define MS __attribute__((ms_abi))
struct P2 { double x; double y; };
struct Big { long a; long b; long c; };
typedef int (MS *ms_op_t)(int, int, int, int, int);
typedef int (*plain_op_t)(int, int, int, int, int);
typedef int MS ms_fn_t(int, int, int, int, int);
int MS ms_add5(int a, int b, int c, int d, int e);
int plain_add5(int a, int b, int c, int d, int e);
double MS ms_mix(double a, int b, double c, long d, float e, long f);
struct P2 MS ms_ret_p2(int k);
struct Big MS ms_ret_big(int k);
long MS ms_take_big(struct Big v, int k, struct P2 p);
int (MS *get_ms_op(int which))(int, int, int, int, int);
MS int (*ms_get_plain_op(int which))(int, int, int, int, int);
MS int (MS *ms_get_ms_op(int which))(int, int, int, int, int);
ms_op_t get_ms_op_td(int which);
int call_ms(ms_op_t f, int x);
int call_ms_inline(int (MS *f)(int, int, int, int, int), int x);
int call_ms_fn_td(ms_fn_t *f, int x);
int MS ms_call_plain(int (*f)(int, int, int, int, int), int x);
int MS ms_call_ms(ms_op_t f, int x);
struct ops { ms_op_t ms; plain_op_t plain; int (MS *inl)(int, int, int, int, int); ms_fn_t *fn_td; };
int use_ops(const struct ops *o, int x);
extern ms_op_t g_ms_op;
extern plain_op_t g_plain_op;
extern int (MS *g_ms_inline)(int, int, int, int, int);
"""
CC_C = """#include "lib.h"
static int w5(int a, int b, int c, int d, int e) { return a + 2 * b + 3 * c + 4 * d + 5 * e; }
int MS ms_add5(int a, int b, int c, int d, int e) { return w5(a, b, c, d, e); }
int plain_add5(int a, int b, int c, int d, int e) { return 1000 + w5(a, b, c, d, e); }
double MS ms_mix(double a, int b, double c, long d, float e, long f) { return a + 2 * b + 3 * c + 4 * d + 5 * e + 6 * f; }
struct P2 MS ms_ret_p2(int k) { struct P2 p = { k + 0.5, 2 * k + 0.25 }; return p; }
struct Big MS ms_ret_big(int k) { struct Big v = { k, 2 * k, 3 * k }; return v; }
long MS ms_take_big(struct Big v, int k, struct P2 p) { return v.a + 2 * v.b + 3 * v.c + 4 * k + (long)(5 * p.x + 6 * p.y); }
static int MS ms_a(int a, int b, int c, int d, int e) { return 10 + w5(a, b, c, d, e); }
static int MS ms_b(int a, int b, int c, int d, int e) { return 20 + w5(e, d, c, b, a); }
static int pl_a(int a, int b, int c, int d, int e) { return 30 + w5(a, b, c, d, e); }
static int pl_b(int a, int b, int c, int d, int e) { return 40 + w5(e, d, c, b, a); }
int (MS *get_ms_op(int which))(int, int, int, int, int) { return which ? ms_a : ms_b; }
MS int (*ms_get_plain_op(int which))(int, int, int, int, int) { return which ? pl_a : pl_b; }
MS int (MS *ms_get_ms_op(int which))(int, int, int, int, int) { return which ? ms_b : ms_a; }
ms_op_t get_ms_op_td(int which) { return which ? ms_b : ms_a; }
int call_ms(ms_op_t f, int x) { return f(x, 1, 2, 3, 4); }
int call_ms_inline(int (MS *f)(int, int, int, int, int), int x) { return f(4, x, 3, 2, 1); }
int call_ms_fn_td(ms_fn_t *f, int x) { return f(1, 2, x, 4, 5); }
int MS ms_call_plain(int (*f)(int, int, int, int, int), int x) { return f(5, 4, 3, 2, x); }
int MS ms_call_ms(ms_op_t f, int x) { return f(x, x + 1, x + 2, x + 3, x + 4); }
int use_ops(const struct ops *o, int x) { return o->ms(x, 1, 1, 1, 2) + 3 * o->plain(1, x, 1, 2, 1) + 5 * o->inl(1, 1, x, 1, 3) + 7 * o->fn_td(2, 1, 1, x, 1); }
ms_op_t g_ms_op = ms_a;
plain_op_t g_plain_op = pl_b;
int (MS *g_ms_inline)(int, int, int, int, int) = ms_b;
"""
CC_CMAIN = r"""#include <stdio.h>
#include "lib.h"
static int MS cb_ms(int a, int b, int c, int d, int e) { return 7 + a + 3 * b + 5 * c + 7 * d + 9 * e; }
static int cb_plain(int a, int b, int c, int d, int e) { return 9 + a + 3 * b + 5 * c + 7 * d + 9 * e; }
int main(void) {
  printf("ms_add5 %d\n", ms_add5(1, 2, 3, 4, 5));
  printf("plain_add5 %d\n", plain_add5(1, 2, 3, 4, 5));
  printf("ms_mix %.3f\n", ms_mix(1.5, 2, 2.5, 4, 0.5f, 6));
  { struct P2 p = ms_ret_p2(3); printf("ms_ret_p2 %.3f %.3f\n", p.x, p.y); }
  { struct Big v = ms_ret_big(4); printf("ms_ret_big %ld %ld %ld\n", v.a, v.b, v.c); }
  { struct Big v = { 1, 2, 3 }; struct P2 p = { 1.0, 2.0 }; printf("ms_take_big %ld\n", ms_take_big(v, 9, p)); }
  for (int w = 0; w < 2; w++) {
    printf("get_ms_op %d %d\n", w, get_ms_op(w)(1, 2, 3, 4, 5));
    printf("ms_get_plain_op %d %d\n", w, ms_get_plain_op(w)(1, 2, 3, 4, 5));
    printf("ms_get_ms_op %d %d\n", w, ms_get_ms_op(w)(1, 2, 3, 4, 5));
    printf("get_ms_op_td %d %d\n", w, get_ms_op_td(w)(1, 2, 3, 4, 5));
  }
  printf("call_ms %d\n", call_ms(cb_ms, 7));
  printf("call_ms_inline %d\n", call_ms_inline(cb_ms, 7));
  printf("call_ms_fn_td %d\n", call_ms_fn_td(cb_ms, 7));
  printf("ms_call_plain %d\n", ms_call_plain(cb_plain, 7));
  printf("ms_call_ms %d\n", ms_call_ms(cb_ms, 7));
  { struct ops o = { cb_ms, cb_plain, cb_ms, cb_ms }; printf("use_ops %d\n", use_ops(&o, 6)); }
  printf("g_ms_op %d\n", g_ms_op(1, 2, 3, 4, 5));
  printf("g_plain_op %d\n", g_plain_op(1, 2, 3, 4, 5));
  printf("g_ms_inline %d\n", g_ms_inline(1, 2, 3, 4, 5));
  return 0;
}
"""
CC_RMAIN = """#![allow(warnings)]
include!("bindings.rs");
extern "win64" fn cb_ms(a: i32, b: i32, c: i32, d: i32, e: i32) -> i32 { 7 + a + 3 * b + 5 * c + 7 * d + 9 * e }
extern "C" fn cb_plain(a: i32, b: i32, c: i32, d: i32, e: i32) -> i32 { 9 + a + 3 * b + 5 * c + 7 * d + 9 * e }
fn main() { unsafe {
  println!("ms_add5 {}", ms_add5(1, 2, 3, 4, 5));
  println!("plain_add5 {}", plain_add5(1, 2, 3, 4, 5));
  println!("ms_mix {:.3}", ms_mix(1.5, 2, 2.5, 4, 0.5f32, 6));
  { let p = ms_ret_p2(3); println!("ms_ret_p2 {:.3} {:.3}", p.x, p.y); }
  { let v = ms_ret_big(4); println!("ms_ret_big {} {} {}", v.a, v.b, v.c); }
  { let v = Big { a: 1, b: 2, c: 3 }; let p = P2 { x: 1.0, y: 2.0 }; println!("ms_take_big {}", ms_take_big(v, 9, p)); }
  for w in 0..2 {
    println!("get_ms_op {} {}", w, get_ms_op(w).unwrap()(1, 2, 3, 4, 5));
    println!("ms_get_plain_op {} {}", w, ms_get_plain_op(w).unwrap()(1, 2, 3, 4, 5));
    println!("ms_get_ms_op {} {}", w, ms_get_ms_op(w).unwrap()(1, 2, 3, 4, 5));
    println!("get_ms_op_td {} {}", w, get_ms_op_td(w).unwrap()(1, 2, 3, 4, 5));
  }
  println!("call_ms {}", call_ms(Some(cb_ms), 7));
  println!("call_ms_inline {}", call_ms_inline(Some(cb_ms), 7));
  println!("call_ms_fn_td {}", call_ms_fn_td(Some(cb_ms), 7));
  println!("ms_call_plain {}", ms_call_plain(Some(cb_plain), 7));
  println!("ms_call_ms {}", ms_call_ms(Some(cb_ms), 7));
  { let o = ops { ms: Some(cb_ms), plain: Some(cb_plain), inl: Some(cb_ms), fn_td: Some(cb_ms) }; println!("use_ops {}", use_ops(&o, 6)); }
  println!("g_ms_op {}", g_ms_op.unwrap()(1, 2, 3, 4, 5));
  println!("g_plain_op {}", g_plain_op.unwrap()(1, 2, 3, 4, 5));
  println!("g_ms_inline {}", g_ms_inline.unwrap()(1, 2, 3, 4, 5));
} }
"""


def callconv_host(ck, bindgen, tmp):
    """x86_64 host: functions, function pointers (typedef'd, inline, returned, passed, stored, global) and callbacks under the ms_abi
    convention next to the default one; five-plus arguments and aggregates so that a wrong convention shows in the printed values"""
    for oi, flags in enumerate(([], ["--no-layout-tests", "--default-alias-style", "new_type"][:1] + ["--with-derive-default"], ["--merge-extern-blocks", "--sort-semantically"], ["--use-core", "--rust-target", "1.73"])):
        d = os.path.join(tmp, "callconv%d" % oi)
        os.makedirs(d)
        for n, t in (("lib.h", CC_H), ("lib.c", CC_C), ("cmain.c", CC_CMAIN), ("main.rs", CC_RMAIN)):
            open(os.path.join(d, n), "w").write(t)
        ck.evaluations += 1
        ck.nontrivial.add(("callconv", tuple(flags)))
        for cmd in (["gcc", "-std=gnu11", "-w", "-c", "-o", "lib.o", "lib.c"], ["gcc", "-std=gnu11", "-w", "-o", "cmain", "cmain.c", "lib.o"]):
            rc, o1, e1 = sh2(cmd, cwd=d, timeout=120)
            if rc != 0:
                raise TieBroken("c04-callconv-generator", e1[-1200:])
        rc, c_out, e1 = sh2(["./cmain"], cwd=d, timeout=60)
        rc, out, err = sh2([bindgen, os.path.join(d, "lib.h")] + flags, cwd=d, timeout=120)
        base = {"header": CC_H, "flags": flags}
        if rc != 0:
            ck.violation("C04-callconv:bindgen-failed", "bindgen fails on the calling-convention library", dict(base, stderr=err[-600:]))
            continue
        open(os.path.join(d, "bindings.rs"), "w").write(out)
        rc, o2, e2 = sh2(["rustc", "--edition", "2021", "-A", "warnings", "-C", "link-arg=lib.o", "-o", "rmain", "main.rs"], cwd=d, timeout=600)
        if rc != 0:
            ck.violation("C04-callconv:caller-does-not-build", "a Rust caller that passes extern \"win64\" / extern \"C\" callbacks where the C header has ms_abi / default function pointers does not build against the bindings",
                         dict(base, rustc=re.findall(r"^error(?:\[E\d+\])?: .*$", e2, re.M)[:4], stderr=e2[-1500:]))
            continue
        rc, r_out, e3 = sh2(["./rmain"], cwd=d, timeout=60)
        if rc != 0 or r_out != c_out:
            cl, rl = c_out.splitlines(), r_out.splitlines()
            diff = [(a, b) for a, b in zip(cl, rl) if a != b][:8]
            ck.violation("C04-callconv:transcript", "calls through the bindings give other results than the same calls from C (calling convention of a function or function pointer)",
                         dict(base, exit=rc, differing_lines=diff, c_lines=len(cl), rust_lines=len(rl), stderr=e3[-300:]))


def replay(ck, path):
    print(open(path).read())
    run(ck)
