# C10 — blocklisted items are referenced but never defined; opaque types are exact blobs.
#  theorems: C10/Properties.v (corollaries of the C09 traversal, the C07 Trace cut-off, the C02 blob; derive head rule)
#  end-to-end: generated record graphs with random opaque / blocklisted subsets through the real bindgen:
#     opaque type = member-less blob with the C size/alignment, containers keep their layout (rustc vs clang);
#     blocklisted type not defined, still named, bindings compile with a user-supplied definition of the right layout,
#     other layouts unchanged, no trait derived through it; functions / variables / files blocklists
import os, re, sys, json, tempfile, shutil
from concurrent.futures import ThreadPoolExecutor
import vlib, e2e, irdump
from vlib import sh, sh2, ROOT, REPO, COQ, CACHE, TieBroken


def deps_of(rec, recs):
    names = {x.name for x in recs}
    out = set()
    for m in rec.members:
        mm = re.match(r"(?:struct|union) (R\d+)\b", m["decl"])
        if mm and mm.group(1) in names:
            out.add(mm.group(1))
    return out


TRAITS = [("cannot_debug", False), ("cannot_default", False), ("cannot_copy", True), ("cannot_hash", False), ("cannot_partialeq", False)]
DERIVES = ["--with-derive-hash", "--with-derive-partialeq", "--with-derive-default"]


def canonical(d, i, depth=0):
    it = d.items.get(i)
    if it is None or depth > 64 or it["ikind"] != "type":
        return it
    k = it.get("tkind")
    if k in ("ResolvedTypeRef", "Alias", "TemplateAlias"):
        return canonical(d, int(it["inner"]), depth + 1)
    if k == "TemplateInstantiation":
        return canonical(d, int(it["def"]), depth + 1)
    return it


def dump_body(d, cases):
    """Coq evaluation: modelled Trace vs real edges (opaque cut-off included) and derive_head on every opaque allowlisted type"""
    B = lambda x: "true" if x else "false"
    rows = "; ".join("(%d, %s, %s, %s, %s, %s, %d)" % (i, B(al), B(cdu), B(isref), B(own), B(tgt), impl) for (i, al, cdu, isref, own, tgt, impl) in cases)
    return """From Coq Require Import NArith List Bool.
From BG Require Import C07.Model C07.Exec C10.Model.
From BGgen Require Import C07_Table.
Import ListNotations. Open Scope N_scope.
Definition items : list (N * item) :=
 %s.
Definition edges : list (N * list (N * N)) :=
 %s.
Eval vm_compute in trace_mismatches items edges.
Definition rows : list (N * bool * bool * bool * bool * bool * N) := [%s].
Eval vm_compute in map (fun r => match r with (i, al, cdu, isref, own, tgt, impl) => i end)
  (filter (fun r => match r with (i, al, cdu, isref, own, tgt, impl) =>
     negb (N.eqb (derive_head al None true (no_derive cdu true (head_union isref own tgt)) Yes) impl) end) rows).
""" % (d.coq_items(), d.coq_edges(), rows)


def run(ck):
    quick = ck.tier == "quick"
    ck.coverage["rule"] = ("generated record graphs (plain C: scalars, arrays, nesting, unions) with a random record made opaque (--opaque-type) or blocklisted (--blocklist-type), used by value / in arrays "
                           "by other records: sizes, alignments and offsets measured by rustc vs clang; struct bodies inspected for leaked members; user-supplied definitions compiled in; "
                           "a fixed header for function / variable / file / item blocklists; non-trivial = the chosen record is used by another record; distinct by (header, choice)")
    ck.trusted += ["clang and rustc as measuring oracles (lib/e2e.py)", "text inspection of the emitted struct body for leaked members / derives",
                   "modelled, not verified: annotation-driven opacity (`<div rustbindgen opaque>`) and C++ std-like namespace patterns are not generated; template arguments and bases of opaque types are covered only through the repository headers used by C07/C09 dumps"]
    vlib.coq_check_properties(ck, "theories/C10/Properties.v")
    bindgen = vlib.build_cli()
    r = ck.rng
    tmp = tempfile.mkdtemp(prefix="c10_", dir=CACHE)
    try:
        cases = []
        for b in range(8 if quick else 120):
            g = e2e.Gen(r, bitfields=False, attrs=False)
            hdr = g.header(12)
            used = {d for x in g.recs for d in deps_of(x, g.recs)}
            pool = sorted(used) or [g.recs[0].name]
            for mode in ("opaque", "blocklist", "both"):
                cases.append((b, mode, r.choice(pool), g.recs, hdr))

        def one(c):
            b, mode, target, recs, hdr = c
            tag = "b%d_%s" % (b, mode)
            h = os.path.join(tmp, "h_%s.h" % tag)
            open(h, "w").write(hdr)
            cn, err = e2e.c_probe(h, recs, tmp, tag)
            fl = ["--no-layout-tests"] + (["--opaque-type", "^%s$" % target] if mode in ("opaque", "both") else []) + (["--blocklist-type", "^%s$" % target] if mode in ("blocklist", "both") else [])
            rc, out, err2, d = irdump.run_dump(bindgen, h, fl + DERIVES, [], cwd=tmp, log=os.path.join(tmp, "log_" + tag))
            res = {"cn": cn, "rc": rc, "out": out, "err": err2, "dump": d}
            if rc == 0 and cn is not None:
                text = out
                if mode in ("blocklist", "both"):
                    ct = cn[target]
                    # the user vouches for nothing: a bare blob of the right size and alignment
                    text = "#[repr(C, align(%d))] pub struct %s(pub [u8; %d]);\n" % (ct["align"], target, ct["size"]) + out
                rn, e = e2e.rust_probe(text, recs, tmp, tag)
                res["rn"], res["rerr"] = rn, e
            return c, res
        with ThreadPoolExecutor(max_workers=vlib.NCPU) as ex:
            results = list(ex.map(one, cases))
        for (b, mode, target, recs, hdr), res in results:
            ck.evaluations += 1
            ck.nontrivial.add((hdr, mode, target))
            rec = [x for x in recs if x.name == target][0]
            data = {"header": hdr if len(hdr) < 3500 else hdr[:3500], "mode": mode, "target": target, "target_text": rec.text()}
            if res["cn"] is None:
                raise TieBroken("clang-probe", "")
            if res["rc"] != 0:
                ck.violation("C10-bindgen-failed:" + mode, "bindgen fails when a type is made %s" % mode, dict(data, stderr=res["err"][-400:]))
                continue
            out = res["out"]
            defined = re.search(r"pub (?:struct|union) %s\b" % target, out) is not None
            if mode in ("blocklist", "both"):
                if defined:
                    ck.violation("C10-blocklisted-defined", "a blocklisted type is defined in the output", data)
                users = [x for x in recs if target in deps_of(x, recs)]
                for u in users:
                    body = e2e.struct_body(out, u.name)
                    if body and not re.search(r"\b%s\b" % target, body):
                        ck.violation("C10-blocklisted-not-named", "a record that contains a blocklisted type no longer names it", dict(data, user=u.text(), emitted=body[:400]))
                    m = re.search(r"((?:#\[[^\]]*\]\s*)*)pub (?:struct|union) %s\b" % u.name, out)
                    if m and re.search(r"derive\(([^)]*)\)", m.group(1)):
                        ck.violation("C10-derive-through-blocklisted", "traits are derived on a record that contains a blocklisted type by value although nobody vouched for it",
                                     dict(data, user=u.text(), attrs=m.group(1).strip()))
                if res.get("rn") is None:
                    errs = e2e.rustc_errors(res.get("rerr", ""), 3)
                    ck.violation("C10-user-definition-does-not-compile", "with a user-supplied definition of the right layout the bindings still do not compile", dict(data, rustc=errs))
                    continue
            else:
                if not defined:
                    ck.violation("C10-opaque-missing", "an opaque type is not emitted at all", data)
                    continue
                body = e2e.struct_body(out, target)
                leaked = [m["name"] for m in rec.members if m["name"] and re.search(r"\bpub %s\s*:" % m["name"], body)]
                if leaked:
                    ck.violation("C10-opaque-leaks-members", "an opaque type exposes members: %s" % leaked, dict(data, emitted=body[:400]))
                if re.search(r"impl %s \{[^}]*pub fn " % target, out):
                    ck.violation("C10-opaque-has-accessors", "an opaque type has accessor methods", data)
                if res.get("rn") is None:
                    ck.violation("C10-opaque-does-not-compile", "bindings with an opaque type do not compile", dict(data, rustc=e2e.rustc_errors(res.get("rerr", ""), 3)))
                    continue
            cn, rn = res["cn"], res["rn"]
            for x in recs:
                c, rr = cn.get(x.name), rn.get(x.name)
                if rr is None:
                    continue
                if x.name == target:
                    if (rr["size"], rr["align"]) != (c["size"], c["align"]):
                        ck.violation("C10-%s-blob-layout" % mode, "the %s type's Rust size/alignment differ from C" % mode, dict(data, clang=c, rustc=rr))
                else:
                    cc = dict(c)
                    if rr != cc:
                        ck.violation("C10-container-layout:" + mode, "making a type %s changes the layout of another type" % mode, dict(data, other=x.text(), clang=c, rustc=rr))
        # ---- dump tie: Trace cut-off and the derive head rule on every opaque / referring item
        bodies, metas = [], []
        for (b, mode, target, recs, hdr), res in results:
            d = res.get("dump")
            if res["rc"] != 0 or d is None or not d.complete:
                continue
            rows = []
            reached = {t for i, es in d.edges.items() if d.items[i]["allow"] for (t, _) in es}
            for i, it in sorted(d.items.items()):
                if it["ikind"] != "type":
                    continue
                if not it["allow"]:
                    # a non-allowlisted (blocklisted) type reached from an allowlisted item: nobody vouches for it on the command line
                    if i in reached and it.get("tkind") in ("Comp", "ResolvedTypeRef"):
                        for tr, cdu in TRAITS:
                            if d.ran.get(tr):
                                v = d.res.get(tr, {}).get(i)
                                rows.append((i, False, cdu, False, False, False, 0 if v is None else (1 if v == "Manually" else 2)))
                    continue
                if not it["opaque"]:
                    continue
                k = it.get("tkind")
                if k == "Comp":
                    bad = [e for e in d.edges.get(i, []) if e[1] in ("Field", "BaseMember")]
                    if bad:
                        ck.violation("C10-opaque-traced-into", "the traversal of an opaque composite yields its fields or bases", {"header": hdr, "target": target, "item": it, "edges": bad[:5]})
                if k not in ("Comp", "ResolvedTypeRef"):
                    continue
                can = canonical(d, i)
                tgt = bool(can and can.get("tkind") == "Comp" and can.get("kind") == "union")
                own = k == "Comp" and it.get("kind") == "union"
                for tr, cdu in TRAITS:
                    if d.ran.get(tr):
                        v = d.res.get(tr, {}).get(i)
                        impl = 0 if v is None else (1 if v == "Manually" else 2)
                        rows.append((i, True, cdu, k == "ResolvedTypeRef", own, tgt, impl))
            bodies.append(dump_body(d, rows))
            metas.append((hdr, mode, target, d, rows))
        ok, out = vlib.coq_make(["theories/C07/Exec.vo", "gen/C07_Table.vo", "theories/C10/Model.vo"])
        if not ok:
            raise TieBroken("coq-build:C10/dump", out)
        evs = vlib.coq_eval_many("c10_dump", bodies, timeout=600)
        nrows = 0
        for (hdr, mode, target, d, rows), (rc, out) in zip(metas, evs):
            ls = vlib.parse_coq_nlists(out) if rc == 0 else []
            if rc != 0 or len(ls) != 2 or any(x is None for x in ls):
                raise TieBroken("coq-eval:C10/dump", out[-2000:])
            nrows += len(rows)
            if ls[0]:
                ck.broken("correspondence", "Trace vs C07/Model.trace (opaque cut-off)", json.dumps({"header": hdr, "items": ls[0][:5], "first": d.items[ls[0][0]], "real_edges": d.edges.get(ls[0][0])}, default=str)[:3000])
            if ls[1]:
                i = ls[1][0]
                ck.violation("C10-opaque-derive-head", "the derive answer for an opaque item differs from the head rule (layout alone; a reference answers like its target)",
                             {"header": hdr, "mode": mode, "target": target, "item": d.items[i], "answers": {tr: d.res.get(tr, {}).get(i) for tr, _ in TRAITS}})
        ck.obligation("correspondence:opaque Trace cut-off + derive head == model on IR dumps", not [v for v in ck.violations if v.get("kind") == "correspondence"], "%d dumps, %d (item, trait) rows" % (len(metas), nrows))
        ck.coverage["traces_validated_against_impl"] = len(metas)
        if results:
            (b, mode, target, recs, hdr), res = results[0]
            ck.sample({"mode": mode, "target": target, "emitted": e2e.struct_body(res.get("out", ""), target)[:200] if mode == "opaque" else "(not defined)"})
        cpp_opaque_instantiations(ck, bindgen, tmp, quick)
        cpp_opaque_bases(ck, bindgen, tmp)
        opaque_non_records(ck, bindgen, tmp)
        # ---- functions, variables, items, files
        d = os.path.join(tmp, "fs")
        os.makedirs(os.path.join(d, "sub"))
        open(os.path.join(d, "sub", "blocked.h"), "w").write("struct in_blocked_file { int q; };\nint fn_in_blocked_file(void);\n")
        open(os.path.join(d, "main.h"), "w").write('#include "sub/blocked.h"\nint keep_fn(struct in_blocked_file *p);\nint drop_fn(int);\nextern int keep_var;\nextern int drop_var;\nstruct keep_ty { int a; };\n')
        for flags, gone, stay in ((["--blocklist-function", "drop_fn"], ["pub fn drop_fn"], ["pub fn keep_fn", "keep_var", "pub struct keep_ty"]),
                                  (["--blocklist-var", "drop_var"], ["drop_var"], ["keep_var", "pub fn drop_fn"]),
                                  (["--blocklist-item", "drop_.*"], ["drop_fn", "drop_var"], ["keep_fn", "keep_var"]),
                                  (["--blocklist-file", ".*/sub/blocked.h"], ["pub struct in_blocked_file", "fn_in_blocked_file"], ["pub fn keep_fn", "in_blocked_file"])):
            rc, out, err = sh2([bindgen, os.path.join(d, "main.h")] + flags, timeout=60, cwd=d)
            ck.evaluations += 1
            ck.nontrivial.add(" ".join(flags))
            for gtxt in gone:
                if rc != 0 or re.search(r"\b%s\b" % re.escape(gtxt), out):
                    ck.violation("C10-blocklist-kind:" + flags[0], "a blocklisted function / variable / item / file content is still defined", {"flags": flags, "found": gtxt, "output": out[-600:], "stderr": err[-300:]})
            for stxt in stay:
                if rc == 0 and stxt not in out:
                    ck.violation("C10-blocklist-overreach:" + flags[0], "a blocklist removes or stops naming something it should not", {"flags": flags, "missing": stxt, "output": out[-600:]})
    finally:
        shutil.rmtree(tmp, ignore_errors=True)


def cpp_opaque_instantiations(ck, bindgen, tmp, quick):
    """C++: instantiations of an opaque class template (by option, and implicitly through a non-type parameter) as members of plain,
    packed and #pragma pack(N) records: the inline blob must have the C++ size and alignment, so every container keeps its layout"""
    r = ck.rng
    scal = ["char", "short", "int", "long long", "double", "void *"]
    for case in range(3 if quick else 40):
        recs, body = [], "template <class T> struct Pair { T a; T b; };\ntemplate <class T, int N> struct Arr { T v[N]; };\ntemplate <class T> struct Box { T inner; char flag; };\n"
        for k, pack in enumerate(r.sample(["none", "packed", "pack2", "pack4", "pack8", "none"], 4)):
            rec = e2e.Rec("H%d_%d" % (case, k))
            ms = []
            # blobs aligned above 4 carry repr(align), which rustc refuses inside any packed(N) type (C02 known finding E0588): packed
            # containers only hold instantiations over char / short / int
            pool = scal[:3] if pack != "none" else scal
            for j in range(r.choice([2, 3, 4, 5])):
                x = r.random()
                if x < 0.35:
                    t = r.choice(pool[:5])
                elif x < 0.65:
                    t = "Pair<%s>" % r.choice(pool)
                elif x < 0.85:
                    t = "Arr<%s, %d>" % (r.choice(pool[:5]), r.choice([1, 2, 3, 5]))
                else:
                    t = "Box<Pair<%s> >" % r.choice(pool[:5])
                ms.append({"name": "m%d" % j, "decl": "%s m%d" % (t, j), "bitfield": None, "anon": False})
            rec.members = ms
            rec.features = {pack}
            txt = "struct %s {\n%s}%s;\n" % (rec.name, "".join("  %s;\n" % m["decl"] for m in ms), " __attribute__((packed))" if pack == "packed" else "")
            if pack.startswith("pack") and pack != "packed":
                txt = "#pragma pack(push, %s)\n%s#pragma pack(pop)\n" % (pack[4:], txt)
            body += txt
            recs.append(rec)
        d = os.path.join(tmp, "cppop%d" % case)
        os.makedirs(d)
        open(os.path.join(d, "t.hpp"), "w").write(body)
        probe = '#include <cstdio>\n#include <cstddef>\n#include "t.hpp"\nint main() {\n'
        for rec in recs:
            probe += '  printf("%s %%zu %%zu", sizeof(%s), alignof(%s));\n' % (rec.name, rec.name, rec.name)
            for m in rec.members:
                probe += '  printf(" %s=%%zu", offsetof(%s, %s));\n' % (m["name"], rec.name, m["name"])
            probe += '  printf("\\n");\n'
        probe += "  return 0; }\n"
        open(os.path.join(d, "p.cpp"), "w").write(probe)
        rc, o, e = sh2(["clang++", "-std=c++14", "-w", "-Wno-invalid-offsetof", "-o", "p", "p.cpp"], cwd=d, timeout=120)
        if rc != 0:
            raise TieBroken("c10-cpp-probe", e[-800:])
        rc, o, e = sh2(["./p"], cwd=d, timeout=60)
        cn = e2e.parse_numbers(o)
        for optname, flags in (("option", ["--opaque-type", "Pair", "--opaque-type", "Box"]), ("implicit-only", [])):
            rc, out, err = sh2([bindgen, os.path.join(d, "t.hpp"), "--no-layout-tests"] + flags + ["--", "-x", "c++", "-std=c++14"], timeout=120)
            ck.evaluations += 1
            ck.nontrivial.add((body, optname))
            base = {"header": body, "flags": flags + ["--", "-x", "c++", "-std=c++14"]}
            if rc != 0:
                ck.violation("C10-bindgen-failed:cpp-opaque", "bindgen fails on opaque template instantiations", dict(base, stderr=err[-400:]))
                continue
            if flags and re.search(r"pub struct Pair\b[^{]*\{[^}]*\bpub a\b", out):
                ck.violation("C10-opaque-leaks-members", "an opaque class template exposes its members", dict(base, emitted=(re.search(r"pub struct Pair[^}]*\}", out) or [""])[0][:300]))
            rn, e2_ = e2e.rust_probe(out, recs, d, "cppop")
            if rn is None:
                errs = e2e.rustc_errors(e2_, 3)
                code = (re.search(r"E\d{4}", " ".join(errs)) or ["E?"])[0]
                ck.violation("C10-cpp-opaque-does-not-compile:%s" % code, "bindings with opaque template instantiations as members do not compile", dict(base, rustc=errs))
                continue
            for rec in recs:
                c, rr = cn.get(rec.name), rn.get(rec.name)
                if rr is not None and rr != c:
                    ck.violation("C10-container-layout:opaque-instantiation:%s" % sorted(rec.features)[0], "a record holding an opaque template instantiation does not keep its C++ layout",
                                 dict(base, record=rec.name, clang=c, rustc=rr))


def cpp_opaque_bases(ck, bindgen, tmp):
    """C++: an opaque type as a base class (empty and non-empty): the derived type must keep its C++ layout"""
    d = os.path.join(tmp, "cppbase")
    os.makedirs(d)
    body = "struct E {};\nstruct B { short s; };\nstruct V { virtual void f(); long q; };\nstruct DE : E { int x; };\nstruct DB : B { char c; };\nstruct DV : V { char c; };\nstruct DM : E, B { int y; };\n"
    open(os.path.join(d, "t.hpp"), "w").write(body)
    recs = []
    for n, ms in (("DE", ["x"]), ("DB", ["c"]), ("DV", ["c"]), ("DM", ["y"])):
        rec = e2e.Rec(n)
        rec.members = [{"name": m, "decl": "int " + m, "bitfield": None, "anon": False} for m in ms]
        recs.append(rec)
    probe = '#include <cstdio>\n#include <cstddef>\n#include "t.hpp"\nint main() {\n'
    for rec in recs:
        probe += '  printf("%s %%zu %%zu", sizeof(%s), alignof(%s));\n' % (rec.name, rec.name, rec.name)
        for m in rec.members:
            probe += '  printf(" %s=%%zu", offsetof(%s, %s));\n' % (m["name"], rec.name, m["name"])
        probe += '  printf("\\n");\n'
    probe += "  return 0; }\n"
    open(os.path.join(d, "p.cpp"), "w").write(probe)
    rc, o, e = sh2(["clang++", "-std=c++14", "-w", "-Wno-invalid-offsetof", "-o", "p", "p.cpp"], cwd=d, timeout=120)
    if rc != 0:
        raise TieBroken("c10-cpp-probe", e[-800:])
    rc, o, e = sh2(["./p"], cwd=d, timeout=60)
    cn = e2e.parse_numbers(o)
    flags = ["--opaque-type", "^E$", "--opaque-type", "^B$", "--opaque-type", "^V$", "--no-layout-tests"]
    rc, out, err = sh2([bindgen, os.path.join(d, "t.hpp")] + flags + ["--", "-x", "c++", "-std=c++14"], timeout=120)
    ck.evaluations += 1
    ck.nontrivial.add(body)
    base = {"header": body, "flags": flags + ["--", "-x", "c++"]}
    if rc != 0:
        ck.violation("C10-bindgen-failed:cpp-opaque", "bindgen fails on opaque base classes", dict(base, stderr=err[-400:]))
        return
    rn, e2_ = e2e.rust_probe(out, recs, d, "cppbase")
    if rn is None:
        ck.violation("C10-cpp-opaque-does-not-compile:base", "bindings with opaque base classes do not compile", dict(base, rustc=e2e.rustc_errors(e2_, 3)))
        return
    for rec in recs:
        c, rr = cn.get(rec.name), rn.get(rec.name)
        if rr is not None and rr != c:
            kind = {"DE": "empty", "DM": "empty", "DB": "data", "DV": "virtual"}[rec.name]
            ck.violation("C10-container-layout:opaque-base:%s" % kind, "a class derived from an opaque base does not keep its C++ layout",
                         dict(base, record=rec.name, clang=c, rustc=rr, emitted=e2e.struct_body(out, rec.name)[:200]))


def opaque_non_records(ck, bindgen, tmp):
    """--opaque-type on things that are not emitted as their own struct: typedefs of scalars / over-aligned scalars / records / arrays,
    enums; each alone, as a member, as an array element: exact size and alignment, nothing of the original type visible"""
    d = os.path.join(tmp, "opq_nr")
    os.makedirs(d)
    tds = [("quad_t", "typedef struct quad_s { char c; } __attribute__((aligned(16))) quad_t;"), ("real_t", "typedef long double real_t;"), ("wide_t", "typedef __int128 wide_t;"),
           ("dbl_t", "typedef double dbl_t;"), ("pair_t", "typedef struct pair_s { int a; short b; } pair_t;"), ("arr_t", "typedef short arr_t[5];"), ("ptr_t", "typedef struct pair_s *ptr_t;"),
           ("big_t", "typedef struct big_s { double d[9]; char c; } big_t;"), ("al32_t", "typedef struct al32_s { int i; } __attribute__((aligned(32))) al32_t;"), ("chr_t", "typedef char chr_t;"),
           ("c4_t", "typedef char c4_t __attribute__((aligned(4)));"), ("i8a_t", "typedef int i8a_t __attribute__((aligned(8)));")]
    body = "\n".join(t for _, t in tds) + "\n"
    for n, _ in tds:
        body += "struct H_%s { char lead; %s m; %s arr[2]; char tail; };\n" % (n, n, n)
    open(os.path.join(d, "t.h"), "w").write(body)
    probe = '#include <stdio.h>\n#include <stddef.h>\n#include "t.h"\nint main(void) {\n'
    for n, _ in tds:
        probe += '  printf("%s %%zu %%zu\\n", sizeof(%s), _Alignof(%s));\n' % (n, n, n)
        probe += '  printf("H_%s %%zu %%zu m=%%zu arr=%%zu tail=%%zu\\n", sizeof(struct H_%s), _Alignof(struct H_%s), offsetof(struct H_%s, m), offsetof(struct H_%s, arr), offsetof(struct H_%s, tail));\n' % ((n,) * 6)
    probe += "  return 0; }\n"
    open(os.path.join(d, "p.c"), "w").write(probe)
    rc, o, e = sh2(["clang", "-std=gnu11", "-w", "-o", "p", "p.c"], cwd=d, timeout=120)
    if rc != 0:
        raise TieBroken("c10-opaque-non-records-probe", e[-800:])
    rc, o, e = sh2(["./p"], cwd=d, timeout=60)
    cn = e2e.parse_numbers(o)
    for n, decl in tds:
        flags = ["--opaque-type", "^%s$" % n, "--no-layout-tests"]
        rc, out, err = sh2([bindgen, os.path.join(d, "t.h")] + flags + ["--allowlist-type", "^H_%s$" % n, "--allowlist-type", "^%s$" % n], timeout=120)
        ck.evaluations += 1
        ck.nontrivial.add(("opaque-non-record", n))
        base = {"header": decl + "\nstruct H_%s { char lead; %s m; %s arr[2]; char tail; };" % (n, n, n), "flags": flags}
        if rc != 0:
            ck.violation("C10-bindgen-failed:opaque-typedef", "bindgen fails on an opaque typedef", dict(base, stderr=err[-400:]))
            continue
        src = ("#![allow(warnings)]\n" + out + "\nfn main() {\n  println!(\"%s {} {}\", ::std::mem::size_of::<%s>(), ::std::mem::align_of::<%s>());\n" % (n, n, n) +
               "  println!(\"H_%s {} {} m={} arr={} tail={}\", ::std::mem::size_of::<H_%s>(), ::std::mem::align_of::<H_%s>(), ::std::mem::offset_of!(H_%s, m), ::std::mem::offset_of!(H_%s, arr), ::std::mem::offset_of!(H_%s, tail));\n}\n" % ((n,) * 6))
        open(os.path.join(d, "r_%s.rs" % n), "w").write(src)
        rc2, so, se = sh2(["rustc", "--edition", "2021", "-A", "warnings", "-o", "r_%s" % n, "r_%s.rs" % n], cwd=d, timeout=300)
        if rc2 != 0:
            ck.violation("C10-opaque-typedef-does-not-compile:%s" % n, "bindings with an opaque typedef do not compile", dict(base, rustc=e2e.rustc_errors(se, 3), emitted=out[-600:]))
            continue
        rc3, so, se = sh2(["./r_%s" % n], cwd=d, timeout=60)
        rn = e2e.parse_numbers(so)
        for key in (n, "H_" + n):
            if rn.get(key) != cn.get(key):
                what = "scalar-overaligned" if n in ("c4_t", "i8a_t") else "align-above-8" if n in ("quad_t", "real_t", "wide_t", "al32_t") else "other"
                ck.violation("C10-opaque-typedef-layout:%s" % what, "an opaque typedef (or a struct holding it) does not have C's size / alignment / offsets",
                             dict(base, item=key, clang=cn.get(key), rustc=rn.get(key), emitted=re.findall(r"pub type %s = [^;]*;" % n, out)))
                break
        # nothing of the original type may be visible
        m = re.search(r"pub type %s = ([^;]*);" % n, out)
        if m and not re.search(r"__BindgenOpaqueArray|\[u\d+; |^u\d+$|^\[u8", m.group(1).strip()):
            ck.violation("C10-opaque-typedef-not-a-blob", "an opaque typedef is not emitted as a blob", dict(base, emitted=m.group(0)))


def replay(ck, path):
    print(open(path).read())
    run(ck)
