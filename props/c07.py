# C07 — inferred type facts are the least fixed point; declaration order is irrelevant.
#  theorems: C07/Properties.v (generic work-list solver: termination, fixed point, least, schedule independence;
#            five analyses: bounded rules, reads subscribed w.r.t. the consider_edge filters regenerated from source)
#  tie (H1 dump): modelled Trace == real EDGE list; model solver's least fixed point == implementation's answer;
#            the implementation's answer is a fixed point of the modelled rules; unsubscribed reads listed
#  tie (H2 sweep): the real constrain functions re-applied after convergence must not change anything
#  black-box: generated C++ declaration graphs in several valid declaration orders -> same derives / fields / repr per type
import os, re, sys, json, glob, shlex, tempfile, shutil
from concurrent.futures import ThreadPoolExecutor
import vlib, irdump
from vlib import sh, sh2, ROOT, REPO, COQ, CACHE, TieBroken
sys.path.insert(0, os.path.join(ROOT, "translator"))
import tr_c07 as tr

AN = [("vtable", "A_vtable", {"No": 0, "SelfHasVtable": 1, "BaseHasVtable": 2}),
      ("sizedness", "A_sizedness", {"ZeroSized": 0, "DependsOnTypeParam": 1, "NonZeroSized": 2}),
      ("destructor", "A_destructor", {"1": 1}), ("float", "A_float", {"1": 1}), ("tparam_array", "A_tparam_array", {"1": 1})]
AN_TYPE = {"vtable": "HasVtable", "sizedness": "Sizedness", "destructor": "HasDestructor", "float": "HasFloat", "tparam_array": "HasTypeParameterInArray"}
DERIVES = ["--with-derive-hash", "--with-derive-partialeq", "--with-derive-eq", "--with-derive-partialord", "--with-derive-ord", "--with-derive-default"]


def header_flags(h):
    first = open(h, errors="replace").readline()
    m = re.match(r"//\s*bindgen-flags:\s*(.*)", first)
    fl = shlex.split(m.group(1)) if m else []
    cl = []
    if "--" in fl:
        i = fl.index("--")
        fl, cl = fl[:i], fl[i + 1:]
    if h.endswith(".hpp") and "-x" not in cl:
        cl = cl + ["-x", "c++"]
    if h.endswith(".hpp") and not any(a.startswith("-std") for a in cl):
        cl = cl + ["-std=c++14"]
    return fl, cl


def coq_body(d):
    allow = "[" + "; ".join(str(i) for i in d.allow) + "]"
    s = """From Coq Require Import NArith List Bool.
From BG Require Import C07.Model C07.Exec C07.TParams C07.TParamsExec.
From BGgen Require Import C07_Table.
Import ListNotations. Open Scope N_scope.
Definition A_vtable := {| a_rule := rule_vtable; a_filter := filter_vtable |}.
Definition A_sizedness := {| a_rule := rule_sizedness; a_filter := filter_sizedness |}.
Definition A_destructor := {| a_rule := rule_destructor; a_filter := filter_destructor |}.
Definition A_float := {| a_rule := rule_float; a_filter := filter_float |}.
Definition A_tparam_array := {| a_rule := rule_tparam_array; a_filter := filter_tparam_array |}.
Definition items : list (N * item) :=
 %s.
Definition allow : list N := %s.
Definition edges : list (N * list (N * N)) :=
 %s.
Eval vm_compute in trace_mismatches items edges.
""" % (d.coq_items(), allow, d.coq_edges())
    for name, aname, enc in AN:
        if not d.ran.get(name, False):
            s += "Eval vm_compute in [[] ; [] ; [] ; @nil N].\n"
            continue
        res = d.res.get(name, {})
        impl = "[" + "; ".join("(%d, %d)" % (k, enc.get(v, 9)) for k, v in sorted(res.items())) + "]"
        s += "Eval vm_compute in (let '(a, b, c) := check items allow %s %s in [a; b; map fst c; map snd c]).\n" % (aname, impl)
    # the sixth analysis, set-valued: UsedTemplateParameters (C07/TParams.v)
    if d.ran.get("used_tparams", False):
        L = lambda xs: "[" + "; ".join(str(x) for x in xs) + "]"
        selfp = "[" + "; ".join("(%d, %s)" % (i, L(irdump.idlist(x.get("tparams", "-")))) for i, x in sorted(d.items.items())
                                if x["ikind"] == "type" and x.get("tkind") == "Comp" and irdump.idlist(x.get("tparams", "-"))) + "]"
        res = d.res.get("used_tparams", {})
        impl = "[" + "; ".join("(%d, %s)" % (k, L(irdump.idlist(v))) for k, v in sorted(res.items()) if irdump.idlist(v)) + "]"
        nparams = sum(1 for x in d.items.values() if x["ikind"] == "type" and x.get("tkind") == "TypeParam")
        fuel = (len(d.items) + sum(len(v) for v in d.edges.values()) * 2 + 10) * (nparams + 2)
        s += "Eval vm_compute in check_tp items allow filter_used_tparams %s %s %d.\n" % (selfp, impl, fuel)
    else:
        s += "Eval vm_compute in [[] ; [] ; [] ; [] ; @nil N].\n"
    return s


def analyse_dump(ck, label, d, source):
    """returns the Coq body; evaluation is batched by the caller"""
    return coq_body(d)


def judge(ck, label, d, out, source):
    ls = vlib.parse_coq_nlists(out)
    if len(ls) != 2 + len(AN) or any(x is None for x in ls):
        raise TieBroken("coq-eval:C07/dump-parse", "%s\n%s" % (label, out[-1500:]))
    tm = [i for i in ls[0] if d.items[i].get("tkind") != "ObjCInterface"]
    if tm:
        ck.count("trace_model_mismatch_items", len(tm))
        ck.broken("correspondence", "Trace vs C07/Model.trace", json.dumps({"header": label, "items": tm[:10], "first": d.items[tm[0]], "real_edges": d.edges.get(tm[0])}, default=str)[:3000])
    # ---- UsedTemplateParameters (set-valued; C07/TParams.v)
    tp = ls[-1]
    if len(tp) != 5:
        raise TieBroken("coq-eval:C07/dump-parse", "%s\n%s" % (label, out[-1500:]))
    tp_mis, tp_unstable, tp_unsub_r, tp_unsub_m, tp_dom = tp
    if tp_dom:
        ck.count("used_tparams_runs_compared")
        ck.count("used_tparams_domain_nodes", tp_dom[0])
        if any(irdump.idlist(v) for v in d.res.get("used_tparams", {}).values()):
            ck.count("used_tparams_runs_with_a_used_parameter")
    if tp_mis:
        ck.count("result_mismatch_used_tparams", len(tp_mis))
        ck.broken("correspondence", "analysis used_tparams vs C07/TParams",
                  json.dumps({"header": label, "nodes": tp_mis[:10], "items": [d.items[i] for i in tp_mis[:3] if i in d.items],
                              "impl": {str(i): d.res.get("used_tparams", {}).get(i) for i in tp_mis[:10]}}, default=str)[:3000])
    if tp_unstable:
        ck.count("unstable_facts_model_used_tparams", len(tp_unstable))
        real = {int(m.group(1)) for an, node in d.unstable for m in [re.search(r"ItemId\((\d+)\)", node)] if m and "UsedTemplateParameters" in an}
        if set(tp_unstable) <= real:
            i = tp_unstable[0]
            ck.violation("C07-unstable:used_tparams", "the set of template parameters used by item %d (%s) is not a fixed point: re-applying the rule adds a parameter (model and the real sweep agree)" % (i, d.items.get(i, {}).get("name")),
                         {"header": label, "source": source, "item": d.items.get(i), "nodes": tp_unstable[:10], "sweep": d.unstable[:10]})
        else:
            ck.broken("correspondence", "H2 sweep vs modelled fixed-point test (used_tparams)",
                      json.dumps({"header": label, "model_unstable": tp_unstable[:10], "impl_sweep": sorted(real)[:10]}))
    if tp_unsub_r:
        ck.count("unsubscribed_reads_used_tparams", len(tp_unsub_r))
    for (name, aname, enc), rep in zip(AN, ls[1:-1]):
        resmis, unstable, unsub_r, unsub_m = rep
        if resmis:
            ck.count("result_mismatch_" + name, len(resmis))
            ck.broken("correspondence", "analysis %s vs C07/Model" % name,
                      json.dumps({"header": label, "nodes": resmis[:10], "items": [d.items[i] for i in resmis[:3] if i in d.items], "impl": {str(i): d.res.get(name, {}).get(i) for i in resmis[:10]}}, default=str)[:3000])
        if unstable:
            # the implementation's answer is not a fixed point of the modelled rule; it is a violation only if
            # code generation consults such a fact (the H2 probes decide that); the real sweep must agree
            ck.count("unstable_facts_model_" + name, len(unstable))
            real = {int(m.group(1)) for an, node in d.unstable for m in [re.search(r"ItemId\((\d+)\)", node)] if m and AN_TYPE[name] in an}
            if not set(unstable) <= real:
                ck.broken("correspondence", "H2 sweep vs modelled fixed-point test (%s)" % name,
                          json.dumps({"header": label, "model_unstable": unstable[:10], "impl_sweep": sorted(real)[:10]}))
        if unsub_r:
            ck.count("unsubscribed_reads_" + name, len(unsub_r))
    for an, node in d.unstable:
        ck.count("unstable_facts_impl_sweep")
    seen = set()
    for an, i in d.consulted:
        it = d.items.get(i)
        why = ":stdint-named" if it and it.get("stdint") == "1" else ":opaque" if it and it["opaque"] else ""
        cls = "C07-unstable-consulted:%s%s" % (an, why)
        if cls in seen:
            continue
        seen.add(cls)
        ck.violation(cls, "code generation consults the %s fact of item %d (%s), which is not a fixed point: re-applying the rule changes it" % (an, i, it.get("name") if it else "?"),
                     {"header": label, "source": source, "item": it, "sweep": d.unstable[:10], "consulted": d.consulted[:10]})


# ---------------------------------------------------------------- generated declaration graphs
class Graph:
    SCAL = ["int", "char", "float", "double", "long", "unsigned short", "bool"]

    def __init__(self, r, n):
        self.r = r
        self.n = n
        self.structs = []   # name -> dict
        self.typedefs = []
        self.gen()

    def gen(self):
        r = self.r
        self.has_tmpl = r.random() < 0.6
        # a chain of templates, each forwarding its parameter to the previous one (by value, by pointer, as a base, through an alias):
        # the used-template-parameter facts must travel through every level whatever the order of the definitions
        self.chain = []
        if self.has_tmpl and r.random() < 0.6:
            for lvl in range(1, r.choice([2, 3, 3, 4])):
                self.chain.append(("T%d" % lvl, r.choice(["value", "value", "pointer", "base", "alias", "value+own"])))
        ntd = r.randrange(0, 4)
        for i in range(ntd):
            x = r.random()
            if x < 0.5:
                self.typedefs.append(("TD%d" % i, r.choice(self.SCAL), ""))
            elif x < 0.7:
                # typedefs of arrays, of complex numbers and of other typedefs: facts must flow through the whole chain
                self.typedefs.append(("TD%d" % i, r.choice(self.SCAL), "[%d]" % r.choice([2, 3, 40])))
            elif x < 0.8:
                self.typedefs.append(("TD%d" % i, r.choice(["double _Complex", "float _Complex"]), ""))
            elif self.typedefs:
                self.typedefs.append(("TD%d" % i, r.choice(self.typedefs)[0], r.choice(["", "[2]"])))
            else:
                self.typedefs.append(("TD%d" % i, "float", "[3]"))
        self.rec_typedefs = {}      # typedef name -> record it names (usable once the record is complete)
        for i in range(self.n):
            s = {"name": "S%d" % i, "bases": [], "fields": [], "virtual": r.random() < 0.2, "dtor": r.random() < 0.15, "union": r.random() < 0.1, "needs": set()}
            earlier = [x["name"] for x in self.structs if not x["union"]]
            if earlier and not s["union"] and r.random() < 0.4:
                for b in r.sample(earlier, min(len(earlier), r.choice([1, 1, 2]))):
                    s["bases"].append(b)
                    s["needs"].add(b)
            if s["union"]:
                s["virtual"] = s["dtor"] = False
            for f in range(r.randrange(0, 5)):
                x = r.random()
                if x < 0.30:
                    ty = r.choice(self.SCAL + ["float", "double"] + [t[0] for t in self.typedefs] * 2)
                    s["fields"].append((ty, "f%d" % f, ""))
                elif x < 0.36 and self.structs:
                    # an earlier record through a typedef of its tag
                    o = r.choice(self.structs)["name"]
                    td = "RT%d_%d" % (i, f)
                    self.rec_typedefs[td] = o
                    s["fields"].append((td, "f%d" % f, r.choice(["", "", "[2]"])))
                    s["needs"].add(o)
                elif x < 0.45 and self.structs:
                    o = r.choice(self.structs)["name"]
                    s["fields"].append(("%s *" % o if r.random() < 0.5 else "S%d *" % r.randrange(self.n), "f%d" % f, ""))
                elif x < 0.57 and self.structs:
                    o = r.choice(self.structs)["name"]
                    s["fields"].append((o, "f%d" % f, ""))
                    s["needs"].add(o)
                elif x < 0.65 and self.structs:
                    # an anonymous (or named-in-place) struct / union member holding an earlier record or scalar by value: the member's
                    # type is the inner item itself, reached by an InnerType edge AND a Field edge from the same parent (seed C07-4)
                    o = r.choice(self.structs)["name"]
                    inner = r.choice([o, o, r.choice(["float", "double", "int"])])
                    kw = r.choice(["struct", "struct", "union"]) if not any(x["name"] == inner and (x["dtor"] or x["virtual"] or x["bases"]) for x in self.structs) else "struct"
                    s["fields"].append(("%s { %s af%d; int ag%d; }" % (kw, inner, f, f), r.choice(["", "", "f%d" % f]), ""))
                    if inner == o:
                        s["needs"].add(o)
                elif x < 0.72:
                    s["fields"].append((r.choice(self.SCAL), "f%d" % f, "[%d]" % r.choice([2, 33, 40])))
                elif self.has_tmpl:
                    # named arguments (earlier records, so lower item ids than the instantiation) are what makes the
                    # visiting order matter for facts that flow through template arguments
                    named = [x["name"] for x in self.structs]
                    arg = r.choice(named) if named and r.random() < 0.6 else r.choice(self.SCAL)
                    top = r.choice(["T0"] + [c[0] for c in self.chain] * 2)
                    s["fields"].append(("%s<%s>" % (top, arg), "f%d" % f, ""))
                    for c in self.chain:
                        s["needs"].add(c[0])
                    if arg.startswith("S"):
                        s["needs"].add(arg)
                    s["needs"].add("T0")
                else:
                    s["fields"].append(("int", "f%d" % f, ""))
            self.structs.append(s)

    def decl(self, s):
        kw = "union" if s["union"] else "struct"
        b = (" : " + ", ".join("public " + x for x in s["bases"])) if s["bases"] else ""
        body = "".join("  %s %s%s;\n" % f for f in s["fields"])
        if s["virtual"]:
            body += "  virtual void vm%s();\n" % s["name"]
        if s["dtor"]:
            body += "  ~%s();\n" % s["name"]
        return "%s %s%s {\n%s};\n" % (kw, s["name"], b, body)

    def render(self, order):
        out = ["// generated by props/c07.py"]
        out += ["%s %s;" % ("union" if s["union"] else "struct", s["name"]) for s in self.structs]
        out += ["template<class T> struct %s;" % n for n in (["T0"] + [c[0] for c in self.chain] if self.has_tmpl else [])]
        out += ["typedef %s %s%s;" % (t[1], t[0], t[2]) for t in self.typedefs]
        out += ["typedef %s %s %s;" % ("union" if [s for s in self.structs if s["name"] == o][0]["union"] else "struct", o, td) for td, o in sorted(self.rec_typedefs.items())]
        for name in order:
            if name == "T0":
                out.append("template<class T> struct T0 { T x; T *p; };")
            elif name in [c[0] for c in self.chain]:
                lvl = int(name[1:])
                how = [c[1] for c in self.chain if c[0] == name][0]
                prev = "T%d" % (lvl - 1)
                P = "P%d" % lvl
                if how == "value":
                    out.append("template<class %s> struct %s { %s<%s> inner; };" % (P, name, prev, P))
                elif how == "value+own":
                    out.append("template<class %s> struct %s { %s<%s> inner; int own; };" % (P, name, prev, P))
                elif how == "pointer":
                    out.append("template<class %s> struct %s { %s<%s> *inner; };" % (P, name, prev, P))
                elif how == "base":
                    out.append("template<class %s> struct %s : %s<%s> { int extra; };" % (P, name, prev, P))
                else:
                    out.append("template<class %s> struct %s { typedef %s<%s> fwd; fwd inner; };" % (P, name, prev, P))
            else:
                out.append(self.decl([s for s in self.structs if s["name"] == name][0]))
        return "\n".join(out) + "\n"

    def orders(self, k):
        """k valid (topological) orders of the definitions, the first being the natural one"""
        names = (["T0"] + [c[0] for c in self.chain] if self.has_tmpl else []) + [s["name"] for s in self.structs]
        needs = {s["name"]: set(s["needs"]) for s in self.structs}
        needs["T0"] = set()
        for c in self.chain:
            # (templates are declared up front, so their definitions may come in any order; a `base` level needs its base complete)
            needs[c[0]] = {"T%d" % (int(c[0][1:]) - 1)} if c[1] == "base" else set()
        res = [names]
        for _ in range(k * 4):
            if len(res) >= k:
                break
            remaining, placed, order = set(names), set(), []
            while remaining:
                ready = sorted(x for x in remaining if needs[x] <= placed)
                x = self.r.choice(ready)
                order.append(x)
                placed.add(x)
                remaining.discard(x)
            if order not in res:
                res.append(order)
        return res


def inventory(text):
    """per type name: (attributes, fields) as emitted"""
    inv = {}
    for m in re.finditer(r"((?:#\[[^\]]*\]\s*)*)pub (struct|union) (\w+)(<[^>{]*>)?\s*\{([^}]*)\}", text):
        attrs = " ".join(sorted(a.strip() for a in re.findall(r"#\[[^\]]*\]", m.group(1))))
        fields = re.sub(r"\s+", " ", m.group(5)).strip()
        inv[m.group(3)] = (m.group(2) + re.sub(r"\s+", "", m.group(4) or ""), attrs, fields)
    return inv


def run(ck):
    quick = ck.tier == "quick"
    ck.coverage["rule"] = ("(a) IR dumps of repository headers (as written, with their own flags) and of generated C++ declaration graphs: trace model, model solver vs implementation for five analyses, "
                           "fixed-point test of the implementation's answers, H2 sweep; (b) generated graphs (inheritance, by-value and pointer members, typedefs, a template, unions, destructors, "
                           "virtual methods) in up to 4 valid declaration orders with all derive options on: per-type attributes and fields must coincide; non-trivial = a dump with at least one "
                           "composite / a graph with >= 2 distinct orders; distinct by header text")
    ck.trusted += ["translator/tr_c07.py (consider_edge bodies of six analyses, EdgeKind enum; fails closed)",
                   "hook H1 verif_dump (IR structure, real Trace edges, analysis result maps) and hook H2 (post-convergence sweep) behind cfg(bindgen_verif) + $BINDGEN_VERIF_LOG",
                   "lib/irdump.py (dump parser and Coq renderer)",
                   "modelled, not verified: the constrain rules of has_vtable/sizedness/has_destructor/has_float/has_type_param_in_array are transcribed by hand (tied by the dump comparison); "
                   "UsedTemplateParameters is transcribed in C07/TParams.v (constrain rules, resolver, self_template_params, dependency registration; tied by the dump comparison on every run: "
                   "model least fixed point == implementation's sets, implementation's sets stable under the modelled rule, H2 sweep agrees); where the implementation would panic on a missing entry the model contributes nothing; "
                   "CannotDerive's rules live in C08's `can`; its work-list run is covered by the H2 sweep and the re-ordering experiment",
                   "libclang building an isomorphic AST for a re-ordered header is assumed (sampled by the re-ordering experiment)"]
    try:
        filt = tr.main(REPO, os.path.join(COQ, "gen", "C07_Table.v"))
    except (tr.Shape, tr.LexError, OSError) as e:
        raise TieBroken("translator:consider_edge", repr(e))
    ck.obligation("translator:analysis/*.rs->C07_Table.v", True, json.dumps(filt))
    vlib.coq_check_properties(ck, "theories/C07/Properties.v")
    vlib.coq_check_properties(ck, "theories/C07/TParamsProperties.v")
    ok, out = vlib.coq_make(["theories/C07/Exec.vo", "theories/C07/TParamsExec.vo", "gen/C07_Table.vo"])
    if not ok:
        raise TieBroken("coq-build:C07/Exec", out)
    bindgen = vlib.build_cli()
    tmp = tempfile.mkdtemp(prefix="c07_", dir=CACHE)
    try:
        # ---- (a) dumps
        hs = sorted(glob.glob(os.path.join(REPO, "bindgen-tests/tests/headers/*.h")) + glob.glob(os.path.join(REPO, "bindgen-tests/tests/headers/*.hpp")))
        ck.rng.shuffle(hs)
        hs = hs[:60 if quick else 609]
        jobs = []
        for h in hs:
            fl, cl = header_flags(h)
            jobs.append((os.path.basename(h), h, fl, cl, os.path.dirname(h), None))
        graphs = []
        for gi in range(25 if quick else 300):
            g = Graph(ck.rng, ck.rng.choice([3, 5, 8, 12]))
            orders = g.orders(4)
            graphs.append((g, orders))
            for oi, o in enumerate(orders):
                p = os.path.join(tmp, "g%d_%d.hpp" % (gi, oi))
                open(p, "w").write(g.render(o))
                jobs.append(("graph%d/order%d" % (gi, oi), p, DERIVES, ["-x", "c++", "-std=c++14"], tmp, (gi, oi)))

        def one(j):
            label, h, fl, cl, cwd, gkey = j
            rc, out, err, d = irdump.run_dump(bindgen, h, fl, cl, cwd=cwd, log=os.path.join(tmp, "log_%d" % abs(hash(label))))
            return j, rc, out, err, d
        with ThreadPoolExecutor(max_workers=vlib.NCPU) as ex:
            results = list(ex.map(one, jobs))
        bodies, metas = [], []
        outputs = {}
        for j, rc, out, err, d in results:
            label, h, fl, cl, cwd, gkey = j
            ck.evaluations += 1
            if gkey is not None:
                outputs[gkey] = (rc, out, err)
            if rc != 0 or d is None or not d.complete:
                ck.count("dump_skipped_bindgen_failed")
                continue
            if len(d.items) > (1500 if quick else 6000):
                ck.count("dump_skipped_too_large")
                continue
            if any(x["ikind"] == "type" and x.get("tkind") == "Comp" for x in d.items.values()):
                ck.nontrivial.add(open(h, errors="replace").read())
            bodies.append(coq_body(d))
            metas.append((label, d, open(h, errors="replace").read()[:4000]))
        evs = vlib.coq_eval_many("c07_dump", bodies, timeout=900)
        nok = 0
        for (label, d, src), (rc, out) in zip(metas, evs):
            if rc != 0:
                raise TieBroken("coq-eval:C07/dump", "%s\n%s" % (label, out[-2500:]))
            before = len(ck.violations)
            judge(ck, label, d, out, src)
            nok += 1
        ck.coverage["traces_validated_against_impl"] = nok
        bro = [v for v in ck.violations if not v["found_input"] and v.get("kind") == "correspondence"]
        ck.obligation("correspondence:Trace+analyses==C07/Model on IR dumps", not bro, "%d dumps (%d items in the largest), %d broken" % (nok, max([len(m[1].items) for m in metas] + [0]), len(bro)))
        if metas:
            lab, d, _ = metas[0]
            ck.sample({"dump": lab, "items": len(d.items), "allowlisted": len(d.allow), "edges": sum(len(v) for v in d.edges.values()), "results": {k: len(v) for k, v in d.res.items()}})
        # ---- (b) declaration order
        for gi, (g, orders) in enumerate(graphs):
            base = outputs.get((gi, 0))
            if not base or base[0] != 0:
                ck.count("graph_rejected")
                continue
            inv0 = inventory(base[1])
            if len(orders) > 1:
                ck.nontrivial.add(g.render(orders[0]))
            for oi in range(1, len(orders)):
                o = outputs.get((gi, oi))
                ck.evaluations += 1
                if not o or o[0] != 0:
                    ck.violation("C07-order-rejected", "a valid re-ordering of the declarations makes bindgen fail", {"first": g.render(orders[0]), "reordered": g.render(orders[oi]), "stderr": (o or ("", "", ""))[2][-500:]})
                    continue
                inv = inventory(o[1])
                diff = {k: (inv0.get(k), inv.get(k)) for k in set(inv0) | set(inv) if inv0.get(k) != inv.get(k)}
                if diff:
                    k = sorted(diff)[0]
                    a, b = diff[k]
                    what = "derives/attributes" if a and b and a[1] != b[1] else "fields" if a and b else "presence"
                    ck.violation("C07-order-dependent:" + what, "type %s gets different %s when the same declarations come in another valid order" % (k, what),
                                 {"order_a": g.render(orders[0]), "order_b": g.render(orders[oi]), "type": k, "a": a, "b": b})
        if graphs:
            ck.sample({"graph_header": graphs[0][0].render(graphs[0][1][0])[:600], "orders": len(graphs[0][1])})
    finally:
        shutil.rmtree(tmp, ignore_errors=True)


def replay(ck, path):
    print(open(path).read())
    run(ck)
