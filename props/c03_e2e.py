# C03 (part b) — generated records with bit-fields: the accessors bindgen emits, compiled by rustc and linked
# against C setters/getters compiled by clang, must store and read exactly what C stores and reads.
import os, re, json, tempfile, shutil
from concurrent.futures import ThreadPoolExecutor
import vlib, e2e
from vlib import sh2, CACHE, TieBroken

WIDTH = {"u64a4": 64, "i64a2": 64, "char": 8, "unsigned char": 8, "short": 16, "unsigned short": 16, "int": 32, "unsigned": 32, "long": 64, "unsigned long long": 64, "_Bool": 1}
SIGNED = {"u64a4": False, "i64a2": True, "char": True, "unsigned char": False, "short": True, "unsigned short": False, "int": True, "unsigned": False, "long": True, "unsigned long long": False, "_Bool": False}


def values(w, r):
    vs = {0, 1, -1, (1 << (w - 1)) - 1, -(1 << (w - 1)), (1 << w) - 1, 0x5555555555555555 & ((1 << w) - 1), 0x2AAAAAAAAAAAAAAA & ((1 << w) - 1), 1 << (w - 1)}
    for _ in range(2):
        vs.add(r.randrange(-(1 << 62), 1 << 62))
    out = []
    for v in vs:
        if v >= 1 << 63:
            v -= 1 << 64
        out.append(v)
    return sorted(out)


def run(ck):
    quick = ck.tier == "quick"
    bindgen = vlib.build_cli()
    r = ck.rng
    tmp = tempfile.mkdtemp(prefix="c03e_", dir=CACHE)
    try:
        batches = []
        for b in range(6 if quick else 120):
            g = e2e.Gen(r, bitfields=True, attrs=(b % 3 == 2), nested=False, arrays=False, unions=(b % 2 == 0))
            # bias towards bit-fields: keep only records that have at least one named bit-field
            hdr = g.header(14)
            recs = [x for x in g.recs if any(m["bitfield"] and m["name"] for m in x.members)]
            if recs:
                batches.append((b, recs, g.prelude() + "\n".join(x.text() for x in g.recs)))

        # targeted family: a bit-field of a 64-bit type that straddles an 8-byte boundary at every byte position
        # (only possible when the type's alignment is below its size; with natural alignment C starts a new unit)
        fam = []
        k = 0
        for base in ("u64a4", "i64a2", "unsigned long long", "long"):
            for lead in (8, 16, 24, 40, 48, 56):
                for w in (9, 17, 30, 33):
                    rec = e2e.Rec("F%d" % k)
                    rec.members = [{"name": "a", "decl": "%s a : %d" % (base, lead), "bitfield": (base, lead), "anon": False},
                                   {"name": "b", "decl": "%s b : %d" % (base, w), "bitfield": (base, w), "anon": False},
                                   {"name": "c", "decl": "unsigned char c : 3", "bitfield": ("unsigned char", 3), "anon": False}]
                    rec.features = {"bitfield"} | ({"member-aligned"} if base in ("u64a4", "i64a2") else set())
                    fam.append(rec)
                    k += 1
        if quick:
            # every reduced-alignment record, a sample of the naturally aligned ones
            red = [x for x in fam if "member-aligned" in x.features]
            nat = [x for x in fam if "member-aligned" not in x.features]
            r.shuffle(nat)
            fam = red + nat[:8]
        batches.append((9000, fam, e2e.PRELUDE_ATTR + "\n".join(x.text() for x in fam)))
        # targeted family: zero-width separators and anonymous bit-fields of every type in front of fields of every type (the separator's
        # type, not the next field's, decides where the next field starts)
        ubases = ["unsigned char", "unsigned short", "unsigned", "unsigned long long"]
        sepfam = []
        k = 0
        for lead in ubases:
            for sep in ubases:
                for nxt in ubases:
                    for form in (0, 5):
                        if quick and (k * 7 + form) % 3:
                            k += 1
                            continue
                        rec = e2e.Rec("Z%d" % k)
                        rec.members = [{"name": "a", "decl": "%s a : 3" % lead, "bitfield": (lead, 3), "anon": False},
                                       {"name": None, "decl": "%s : %d" % (sep, form), "bitfield": (sep, form), "anon": True},
                                       {"name": "b", "decl": "%s b : 5" % nxt, "bitfield": (nxt, 5), "anon": False},
                                       {"name": "c", "decl": "%s c : 4" % nxt, "bitfield": (nxt, 4), "anon": False}]
                        rec.features = {"bitfield"}
                        sepfam.append(rec)
                        k += 1
        batches.append((9001, sepfam, "\n".join(x.text() for x in sepfam)))

        def one(bt):
            b, recs, hdr = bt
            return bt, exercise(bindgen, tmp, "b%d" % b, recs, hdr, r.randrange(1 << 30))
        with ThreadPoolExecutor(max_workers=vlib.NCPU) as ex:
            results = list(ex.map(one, batches))
        nfields = 0
        for (b, recs, hdr), res in results:
            if res.get("error"):
                # isolate per record to attribute the failure
                for rec in recs:
                    one_res = exercise(bindgen, tmp, "b%d_%s" % (b, rec.name), [rec], hdr, 7, allow=rec.name)
                    judge(ck, rec, one_res, hdr)
                    nfields += sum(1 for m in rec.members if m["bitfield"] and m["name"])
                continue
            for rec in recs:
                judge(ck, rec, res, hdr)
                nfields += sum(1 for m in rec.members if m["bitfield"] and m["name"])
        ck.notes["e2e_bitfield_records"] = sum(len(x[0][1]) for x in results)
        ck.notes["e2e_bitfields"] = nfields
        if results:
            (b, recs, hdr), res = results[0]
            ck.sample({"record": recs[0].text(), "e2e": "C setters/getters vs Rust accessors: %s" % ("agree" if not res.get("mismatch", {}).get(recs[0].name) else res["mismatch"][recs[0].name][:2])})
    finally:
        shutil.rmtree(tmp, ignore_errors=True)


def judge(ck, rec, res, hdr):
    grp = "packed-or-aligned" if rec.features & {"packed", "pragma-pack", "member-aligned", "type-aligned"} else "plain"
    data = {"record": rec.text(), "features": sorted(rec.features)}
    ck.evaluations += 1
    ck.nontrivial.add("e2e:" + rec.text())
    if res.get("error"):
        kind, msg = res["error"]
        code = (re.search(r"E\d{4}", msg) or [None])[0]
        if rec.kind == "union" and (kind == "run-error" or code in ("E0133", "E0054", "E0080")):
            # bit-fields of a union: the allocation unit is sized by the last field, not the widest (debug assertion in set / a failing
            # size assertion), and a union that is not a Rust union gets accessors calling unsafe fns / casting u8 to bool
            ck.violation("C03-union-bitfields", "bit-field accessors of a union do not build or abort: the allocation unit does not cover the widest field, or the union-wrapper accessors do not compile (%s)" % msg[:100],
                         dict(data, error=msg[:600]))
            return
        ck.violation("C03-e2e-%s:%s:%s" % (kind, code or "other", grp), "the bindings of a record with bit-fields do not build (%s)" % msg[:140], dict(data, error=msg[:600]))
        return
    mm = res.get("mismatch", {}).get(rec.name, [])
    seen_cls = set()
    # a unit at the wrong byte offset shows in the stored bytes of setters (the C bytes, moved); getters of the same record then read
    # the wrong bytes as a consequence
    def preceded_by_data_member(field):
        # the known misplacement of an allocation unit needs something in front of the run (a data member or an earlier unit) for the unit
        # to be placed "right after"; a run that starts the record cannot be affected by it
        seen = False
        for x in rec.members:
            if x["name"] == field:
                return seen
            if not x["bitfield"] or (x["bitfield"][1] == 0):
                seen = seen or not x["bitfield"]
        return seen
    unit_shift = any(k == "set" and shifted(dt) and preceded_by_data_member(f_) for (f_, k, _, dt) in mm)
    for m in mm:
        # m = (field, kind, value, detail)
        field, kind, v, detail = m
        base, w = [x["bitfield"] for x in rec.members if x["name"] == field][0]
        if rec.kind == "union":
            cls = "C03-union-bitfields"
            what = "bit-field accessors of a union disagree with C or are missing (allocation unit sized by the last field, fields after a separator dropped)"
        elif preceded_by_data_member(field) and ((kind == "set" and shifted(detail)) or unit_shift):
            cls = "C03-unit-offset:%s" % grp
            what = "the allocation unit holding this bit-field sits at a different byte offset than in C (the stored bits are right, some bytes away; getters of the record read the wrong bytes)"
        elif kind == "get" and SIGNED[base] and w < WIDTH[base] * 1 + 0 and v_is_negative_in_field(v, w):
            cls = "C03-signed-getter"
            what = "getter of a signed bit-field zero-extends: C reads a negative value, the Rust getter a positive one"
        elif kind == "get" and SIGNED[base] and w == WIDTH[base]:
            cls = "C03-getter:%s" % grp
            what = "getter disagrees with C"
        elif preceded_by_data_member(field) and ((kind == "set" and shifted(detail)) or (unit_shift and rec.kind != "union")):
            cls = "C03-unit-offset:%s" % grp
            what = "the allocation unit holding this bit-field sits at a different byte offset than in C (the stored bits are right, %d byte(s) away; getters of the record read the wrong bytes)" % shifted(detail)
        else:
            cls = "C03-%s:%s" % ("setter" if kind == "set" else "getter", grp)
            what = "%s disagrees with C" % ("stored bytes after the setter" if kind == "set" else "value read by the getter")
        if cls in seen_cls:
            continue
        seen_cls.add(cls)
        if ck.violation(cls, what, dict(data, field=field, value=v, detail=detail)):
            break


def shifted(detail):
    """c=[..] rust=[..]: non-zero k if the Rust bytes are the C bytes moved by k positions"""
    m = re.search(r"c=\[([^\]]*)\] rust=\[([^\]]*)\]", detail)
    if not m:
        return 0
    c = [int(x) for x in m.group(1).split(",") if x.strip()]
    r_ = [int(x) for x in m.group(2).split(",") if x.strip()]
    bg = max(set(c), key=c.count)
    for k in range(-16, 17):
        if k and all((c[i - k] if 0 <= i - k < len(c) else bg) == r_[i] for i in range(len(r_))):
            return k
    return 0


def v_is_negative_in_field(v, w):
    return (v >> (w - 1)) & 1 == 1


def exercise(bindgen, tmp, tag, recs, hdr, seed, allow=None):
    import random
    r = random.Random(seed)
    h = os.path.join(tmp, "h_%s.h" % tag)
    open(h, "w").write(hdr)
    fl = ["--no-layout-tests"] + (["--allowlist-type", "^%s$" % allow] if allow else [])
    rc, out, err = sh2([bindgen, h] + fl, timeout=300)
    if rc != 0:
        return {"error": ("bindgen-error", err[-300:])}
    # which accessors exist and their types
    csrc = ['#include <string.h>', '#include "h_%s.h"' % tag]
    rs_ext, rs_body = [], []
    for rec in recs:
        body = e2e.struct_body(out, rec.name)
        impl = re.search(r"impl %s \{(.*?)\n\}" % rec.name, out, re.S)
        methods = impl.group(1) if impl else ""
        t = "%s %s" % (rec.kind, rec.name)
        for m in rec.members:
            if not (m["bitfield"] and m["name"]):
                continue
            base, w = m["bitfield"]
            f = m["name"]
            g = re.search(r"pub fn %s\(&self\) -> ([^\{]+?) \{" % f, methods)
            if not g:
                rs_body.append('    println!("MISSING %s %s");' % (rec.name, f))
                continue
            rty = g.group(1).strip()
            csrc.append("void c_set_%s_%s(%s *p, long long v) { p->%s = v; }" % (rec.name, f, t, f))
            csrc.append("long long c_get_%s_%s(const %s *p) { return (long long)p->%s; }" % (rec.name, f, t, f))
            rs_ext.append("    fn c_set_%s_%s(p: *mut %s, v: i64);\n    fn c_get_%s_%s(p: *const %s) -> i64;" % (rec.name, f, rec.name, rec.name, f, rec.name))
            conv = "(v != 0)" if rty == "bool" else "(v as %s)" % rty
            back = "(x as i64)"
            for v in values(w, r):
                rs_body.append("    chk::<%s>(\"%s\", \"%s\", %d, |p, v| unsafe {{ c_set_%s_%s(p, v) }}, |p| unsafe {{ c_get_%s_%s(p) }}, |s: &mut %s, v| s.set_%s(%s), |s: &%s| {{ let x = s.%s(); %s }});" % (
                    rec.name, rec.name, f, v, rec.name, f, rec.name, f, rec.name, f, conv, rec.name, f, back))
    cfile = os.path.join(tmp, "c_%s.c" % tag)
    open(cfile, "w").write("\n".join(csrc) + "\n")
    cobj = os.path.join(tmp, "c_%s.o" % tag)
    rc, o, e = sh2(["clang", "-std=gnu11", "-w", "-c", "-o", cobj, cfile], cwd=tmp, timeout=300)
    if rc != 0:
        return {"error": ("clang-error", e[-300:])}
    rs = os.path.join(tmp, "t_%s.rs" % tag)
    with open(rs, "w") as f:
        f.write("#![allow(warnings)]\n" + out + "\nextern \"C\" {\n" + "\n".join(rs_ext) + "\n}\n")
        f.write("""
fn bytes<T>(t: &T) -> &[u8] { unsafe { std::slice::from_raw_parts(t as *const T as *const u8, std::mem::size_of::<T>()) } }
fn chk<T>(rec: &str, field: &str, v: i64, cset: impl Fn(*mut T, i64), cget: impl Fn(*const T) -> i64, rset: impl Fn(&mut T, i64), rget: impl Fn(&T) -> i64) {
    for bg in [0u8, 0xFF] {
        let mut c: T = unsafe { std::mem::zeroed() };
        let mut r: T = unsafe { std::mem::zeroed() };
        unsafe { std::ptr::write_bytes(&mut c as *mut T as *mut u8, bg, std::mem::size_of::<T>()); std::ptr::write_bytes(&mut r as *mut T as *mut u8, bg, std::mem::size_of::<T>()); }
        cset(&mut c, v);
        rset(&mut r, v);
        if bytes(&c) != bytes(&r) { println!("SET {} {} {} c={:?} rust={:?}", rec, field, v, bytes(&c), bytes(&r)); }
        let want = cget(&c);
        let got = rget(&c);
        if want != got { println!("GET {} {} {} c={} rust={}", rec, field, v, want, got); }
    }
}
fn main() {
""" + "\n".join(rs_body) + "\n}\n")
    exe = os.path.join(tmp, "t_%s" % tag)
    rc, o, e = sh2(["rustc", "--edition", "2021", "-A", "warnings", "-C", "link-arg=" + cobj, "-o", exe, rs], cwd=tmp, timeout=900)
    if rc != 0:
        return {"error": ("rustc-error", "; ".join(e2e.rustc_errors(e, 2)))}
    rc, o, e = sh2([exe], timeout=120)
    mism = {}
    for line in o.splitlines():
        p = line.split(" ", 4)
        if p[0] in ("SET", "GET"):
            mism.setdefault(p[1], []).append((p[2], p[0].lower(), int(p[3]), p[4] if len(p) > 4 else ""))
        elif p[0] == "MISSING":
            mism.setdefault(p[1], []).append((p[2], "get", 0, "no accessor generated"))
    if rc != 0 and not mism:
        return {"error": ("run-error", (e or o)[-300:])}
    return {"mismatch": mism}
