# C04 / C14 — ABI selection: FunctionSig::abi + get_abi vs C04/Abi.v on real runs.
#  per (clang target, calling-convention attribute, rust target, --override-abi): the convention clang gives the declaration (read from
#  its AST dump), the feature bits of the rust target (RustFeatures through the harness) -> C04.Abi.sig_abi inside Coq; the outcome must be
#  what the bindings show: `extern "<abi>"` around the function / in the function-pointer type, or no declaration at all
import os, re, json
from concurrent.futures import ThreadPoolExecutor
import vlib
from vlib import sh2, TieBroken

ATTR_CC = {None: "CC_C", "stdcall": "CX86StdCall", "fastcall": "CX86FastCall", "thiscall": "CX86ThisCall", "vectorcall": "CX86VectorCall", "pascal": "CX86Pascal", "ms_abi": "CWin64",
           "sysv_abi": "CX86_64SysV", "regcall": "CX86RegCall", 'pcs("aapcs")': "CAAPCS", 'pcs("aapcs-vfp")': "CAAPCS_VFP", "aarch64_vector_pcs": "CAArch64VectorCall",
           "preserve_most": "CPreserveMost", "preserve_all": "CPreserveAll", "swiftcall": "CSwift", "intel_ocl_bicc": "CIntelOclBicc", "cdecl": "CC_C"}
# only attributes whose convention is unambiguous on the target (an attribute that merely restates the target's default is normalised by
# clang in ways its type printer does not show); whether the target honours the attribute at all is asked of clang (-Werror=ignored-attributes)
TARGET_ATTRS = {
    "x86_64-unknown-linux-gnu": [None, "ms_abi", "vectorcall", "regcall", "preserve_most", "preserve_all", "stdcall"],
    "i686-unknown-linux-gnu": [None, "stdcall", "fastcall", "thiscall", "vectorcall", "regcall", "cdecl", "ms_abi"],
    "x86_64-pc-windows-msvc": [None, "sysv_abi", "vectorcall", "regcall"],
    "armv7-unknown-linux-gnueabihf": [None, 'pcs("aapcs")', "stdcall"],
    "aarch64-unknown-linux-gnu": [None, "aarch64_vector_pcs", "preserve_most"],
}
ABI_COQ = {"C": "AC", "stdcall": "AStdcall", "efiapi": "AEfiApi", "fastcall": "AFastcall", "thiscall": "AThisCall", "vectorcall": "AVectorcall", "aapcs": "AAapcs", "win64": "AWin64",
           "C-unwind": "ACUnwind", "system": "ASystem"}
RUST_TARGETS = ["1.64", "1.67", "1.68", "1.70", "1.71", "1.72", "1.73", "1.82", "nightly"]


def run(ck, bindgen, tmp, quick):
    d = os.path.join(tmp, "abi")
    os.makedirs(d)
    ok, out = vlib.coq_make(["theories/C04/Abi.vo"])
    if not ok:
        raise TieBroken("coq-build:C04/Abi", out)
    # feature bits per rust target
    res = vlib.bgv("feat", ["%s\t2021" % ("1.%s.0" % t.split(".")[1] if t != "nightly" else "nightly") for t in RUST_TARGETS])
    feats = {}
    for t, r in zip(RUST_TARGETS, res):
        bits = dict(x.split("=") for x in r.split() if "=" in x)
        feats[t] = tuple(bits.get(k) == "1" for k in ("thiscall_abi", "vectorcall_abi", "c_unwind_abi", "abi_efiapi"))
    jobs = []
    for tgt, attrs in TARGET_ATTRS.items():
        hp = os.path.join(d, "h_%s.h" % tgt.replace("-", "_"))
        lines, ignored = [], set()
        for k, a in enumerate(attrs):
            at = "__attribute__((%s)) " % a if a else ""
            for cand in ("int %sfn%d(int a, int b);\n" % (at, k), "int %svar%d(int a, ...);\n" % (at, k), "typedef int (%s*fp%d_t)(int);\nstruct holder%d { fp%d_t p; };\n" % (at, k, k, k)):
                # (some conventions do not admit variadic functions: clang decides)
                rc0, o0, e0 = sh2(["clang", "--target=" + tgt, "-ffreestanding", "-fsyntax-only", "-w", "-x", "c", "-"], input=cand, timeout=60)
                if rc0 == 0:
                    lines.append(cand)
                    rc1, o1, e1 = sh2(["clang", "--target=" + tgt, "-ffreestanding", "-fsyntax-only", "-Werror=ignored-attributes", "-x", "c", "-"], input=cand, timeout=60)
                    if rc1 != 0:
                        ignored.add(re.search(r"\b(fn\d+|var\d+|fp\d+_t)\b", cand).group(1))
        open(hp, "w").write("".join(lines))
        present = set(re.findall(r"\b(fn\d+|var\d+|fp\d+_t)\b", "".join(lines)))
        def cc_of(name, attrs=attrs, ignored=frozenset(ignored)):
            k = int(re.search(r"\d+", name).group(0))
            return "CC_C" if name in ignored else ATTR_CC[attrs[k]]
        for rt in (RUST_TARGETS if not quick else ["1.64", "1.70", "1.72", "1.73", "nightly"]):
            for ov in (None, "efiapi", "C-unwind", "thiscall", "vectorcall", "win64", "system", "stdcall"):
                if quick and ov not in (None, "efiapi", "C-unwind", "win64") and tgt != "x86_64-unknown-linux-gnu":
                    continue
                jobs.append((tgt, hp, attrs, rt, ov, cc_of, present))

    def one(j):
        tgt, hp, attrs, rt, ov, cc_of, present = j
        fl = ["--rust-target", rt, "--no-layout-tests"] + (["--override-abi", "fn.*=%s" % ov, "--override-abi", "var.*=%s" % ov] if ov else [])
        rc, out, err = sh2([bindgen, hp] + fl + ["--", "--target=" + tgt], timeout=120)
        return j, rc, out, err
    with ThreadPoolExecutor(max_workers=vlib.NCPU) as ex:
        results = list(ex.map(one, jobs))
    rows, metas = [], []
    B = lambda b: "true" if b else "false"
    for (tgt, hp, attrs, rt, ov, cc_of, present), rc, out, err in results:
        ck.evaluations += 1
        ck.nontrivial.add(("abi", tgt, rt, ov))
        base = {"target": tgt, "rust_target": rt, "override": ov, "header": open(hp).read()}
        if rc != 0:
            cls = "panic" if (rc == 101 or "panicked at" in err) else "error"
            ck.violation("C04-abi:bindgen-%s" % cls, "bindgen ends with a %s on declarations with calling-convention attributes" % cls, dict(base, exit=rc, stderr=err[-500:]))
            continue
        f = feats[rt]
        fterm = "{| thiscall_abi := %s; vectorcall_abi := %s; c_unwind_abi := %s; abi_efiapi := %s |}" % tuple(B(x) for x in f)
        for k, a in enumerate(attrs):
            for nm, variadic, overridable in (("fn%d" % k, False, True), ("var%d" % k, True, True), ("fp%d_t" % k, False, False)):
                if nm not in present:
                    continue
                cc = cc_of(nm)
                if cc is None:
                    raise TieBroken("c04-abi:ast", "no type for %s in clang's AST dump" % nm)
                if nm.startswith("fp"):
                    m = re.search(r"pub type %s = [^;]*?extern \"([^\"]+)\" fn" % nm, out)
                    alias_there = re.search(r"pub type %s = " % nm, out) is not None
                    obs = m.group(1) if m else None
                    if alias_there and obs is None:
                        obs = "<opaque>"     # the alias exists but is not a function pointer: the signature was unsupported
                else:
                    m = re.search(r"extern \"([^\"]+)\" \{\s*(?:#\[[^\n]*\]\s*)*pub fn %s\s*\(" % nm, out)
                    obs = m.group(1) if m else None
                obs_term = "None" if obs in (None, "<opaque>") else ("(Some %s)" % ABI_COQ[obs] if obs in ABI_COQ else "(Some AC)")
                rows.append("(get_abi %s, %s, %s, %s, %s)" % (cc, "(Some %s)" % ABI_COQ[ov] if (ov and overridable) else "None", B(variadic), fterm, obs_term))
                metas.append((base, nm, a, cc, obs))
    body = """From Coq Require Import List Bool String.
From BG Require Import C04.Abi.
Import ListNotations.
Definition abi_eqb (a b : abi) : bool := String.eqb (abi_str a) (abi_str b).
Definition rows : list (option abi * option abi * bool * feats * option abi) := [
%s
].
Fixpoint idx (i : nat) (l : list (option abi * option abi * bool * feats * option abi)) : list nat :=
  match l with
  | [] => []
  | (own, ov, v, f, obs) :: l' =>
      (match sig_abi own ov v f, obs with
       | Emit a, Some b => if abi_eqb a b then [] else [i]
       | Unsupported _, None => []
       | _, _ => [i]
       end) ++ idx (S i) l'
  end.
Eval vm_compute in map N.of_nat (idx 0 rows).
""" % ";\n".join(rows)
    body = body.replace("From Coq Require Import List Bool String.", "From Coq Require Import NArith List Bool String.")
    rc, out = vlib.coq_eval("c04_abi", body, timeout=900)
    ls = vlib.parse_coq_nlists(out) if rc == 0 else []
    if rc != 0 or len(ls) != 1 or ls[0] is None:
        raise TieBroken("coq-eval:C04/abi", out[-2500:])
    seen = set()
    for i in ls[0]:
        base, nm, a, cc, obs = metas[i]
        key = (a, nm[:2], base["override"], obs)
        if key in seen:
            continue
        seen.add(key)
        if len(seen) > 6:
            break
        ck.violation("C04-abi:%s" % ("declared-but-unsupported" if obs else "missing-or-wrong"), "the ABI of a declaration differs from FunctionSig::abi's rule (C04/Abi.v sig_abi): %s with attribute %s (clang: %s), override %s, rust target %s: observed %s"
                     % (nm, a, cc, base["override"], base["rust_target"], obs), dict(base, declaration=nm, attribute=a, clang_convention=cc, observed=obs))
    ck.obligation("correspondence:FunctionSig::abi+get_abi==C04/Abi.sig_abi", not ls[0], "%d declarations over %d runs, %d mismatches" % (len(rows), len(results), len(ls[0])))
