# C01 — method wrappers: the names a wrapper's body passes on == the names its `extern` declaration declares == C01/Wrap.decl_names
#  of the C++ parameter list (clang's AST dump), on the cpp-members header
import os, re, json
import vlib
from vlib import sh2, TieBroken


def split_top(s):
    out, depth, cur = [], 0, ""
    for i, ch in enumerate(s):
        if ch in "([<{":
            depth += 1
        elif ch in ")]}" or (ch == ">" and s[i - 1] != "-"):
            depth -= 1
        if ch == "," and depth == 0:
            out.append(cur)
            cur = ""
        else:
            cur += ch
    if cur.strip():
        out.append(cur)
    return [x.strip() for x in out]


def params_by_mangled(path, cl):
    rc, o, e = sh2(["clang"] + cl + ["-fsyntax-only", "-w", "-Xclang", "-ast-dump=json", path], timeout=120)
    if rc != 0:
        raise TieBroken("c01-wrap:clang", e[-500:])
    res = {}

    def walk(n):
        if isinstance(n, dict):
            if n.get("kind") in ("CXXMethodDecl", "CXXConstructorDecl", "FunctionDecl") and n.get("mangledName"):
                res[n["mangledName"]] = [p.get("name") for p in n.get("inner", []) if p.get("kind") == "ParmVarDecl"]
            for v in n.get("inner", []):
                walk(v)
    walk(json.loads(o))
    return res


def run(ck, bindgen, tmp, header_text):
    d = os.path.join(tmp, "wrapnames")
    os.makedirs(d)
    p = os.path.join(d, "m.hpp")
    open(p, "w").write(header_text)
    cl = ["-x", "c++", "-std=c++17"]
    cxx = params_by_mangled(p, cl)
    rc, out, err = sh2([bindgen, p, "--no-layout-tests", "--"] + cl, timeout=120)
    if rc != 0:
        raise TieBroken("c01-wrap:bindgen", err[-500:])
    decls = {}     # rust name of the extern fn -> (mangled, [param names])
    for m in re.finditer(r'#\[link_name = "\\u\{1\}([^"]+)"\]\s*pub fn (\w+)\s*\(', out):
        i = m.end()
        depth, j = 1, i
        while depth:
            depth += out[j] in "(["
            depth -= out[j] in ")]"
            j += 1
        ps = [x.split(":")[0].strip() for x in split_top(out[i:j - 1]) if x and x != "..."]
        decls[m.group(2)] = (m.group(1), ps)
    rows, metas, nwr = [], [], 0
    for rname, (mangled, ps) in sorted(decls.items()):
        if mangled not in cxx:
            continue
        names = ps[1:] if ps and ps[0] == "this" else ps
        rows.append("([%s], [%s])" % ("; ".join("Some (of_string \"%s\")" % n if n else "None" for n in cxx[mangled]), "; ".join("of_string \"%s\"" % n for n in names)))
        metas.append((rname, mangled, cxx[mangled], names))
        # the wrapper's call site
        for c in re.finditer(r"\b%s\s*\(" % rname, out):
            if out[max(0, c.start() - 7):c.start()].endswith("pub fn "):
                continue
            i = c.end()
            depth, j = 1, i
            while depth:
                depth += out[j] in "(["
                depth -= out[j] in ")]"
                j += 1
            args = split_top(out[i:j - 1])
            if ps and ps[0] == "this":
                args = args[1:]
            nwr += 1
            ck.evaluations += 1
            if args != names:
                ck.violation("C01-wrapper-call-names", "a method wrapper passes on other names than its extern declaration declares: %s(%s) vs declared (%s)" % (rname, ", ".join(args), ", ".join(names)),
                             {"header": header_text, "function": rname, "declared": names, "passed": args})
    if not rows or not nwr:
        raise TieBroken("c01-wrap", "no method wrapper found in the bindings of the cpp-members header")
    body = """From Coq Require Import NArith List Bool Ascii String.
From BG Require Import C01.Model C01.Wrap.
From BGgen Require Import C01_Table.
Import ListNotations. Open Scope N_scope.
Fixpoint leq (a b : list str) : bool := match a, b with [], [] => true | x :: a', y :: b' => str_eqb x y && leq a' b' | _, _ => false end.
Definition rows : list (list (option str) * list str) := [
%s
].
Eval vm_compute in map (fun r => if leq (decl_names keywords (fst r)) (snd r) && leq (call_names keywords (fst r)) (snd r) then 1 else 0) rows.
""" % ";\n".join(rows)
    rc, o = vlib.coq_eval("c01_wrap", body, timeout=600)
    ls = vlib.parse_coq_nlists(o) if rc == 0 else []
    if rc != 0 or len(ls) != 1 or ls[0] is None:
        raise TieBroken("coq-eval:C01/wrap", o[-2000:])
    bad = [metas[i] for i, v in enumerate(ls[0]) if v != 1]
    for rname, mangled, cx, names in bad[:3]:
        ck.broken("correspondence", "fnsig_arguments vs C01/Wrap.decl_names", json.dumps({"function": rname, "c++ parameters": cx, "declared in the bindings": names}))
    ck.obligation("correspondence:method wrapper parameter names==C01/Wrap.decl_names", not bad, "%d extern declarations, %d wrapper call sites, %d mismatches" % (len(rows), nwr, len(bad)))
