# C17 — reported dependencies are exactly the files that were read.
#  theorems: C17/Properties.v (escaping, dialect round trip, GNU make partial + refuted, reported set)
#  tie 1: DepfileSpec::to_string (hook) vs Model.to_string (set_of deps), compared inside Coq
#  tie 2: Model.parse_make_deps vs the real GNU make (`make -n -k -d`) on the emitted text
#  spec-level search: round trip of the emitted text through real make
#  end-to-end: generated include DAGs -> depfile + callbacks vs the files actually read (generator truth x clang -H)
#  translator: inventory of env-var reads that bypass env_var(callbacks)
import os, re, sys, json, shutil, tempfile
import vlib
from vlib import sh, sh2, ROOT, REPO, COQ, CACHE, TieBroken, enc, dec
sys.path.insert(0, os.path.join(ROOT, "translator"))
import tr_c17 as tr

ALPHA = ["a", "b", "Z", "0", ".", "/", " ", " ", "\\", "\\", "#", "$", ":", "é", "-", "_", "%", "~", "="]


def rand_path(r, maxlen=8):
    n = r.choice([1, 1, 2, 3, 4, 5, maxlen])
    return "".join(r.choice(ALPHA) for _ in range(n))


def make_parse(text, tmp):
    """what the real GNU make understands as the prerequisites of out.rs"""
    mk = os.path.join(tmp, "d.mk")
    open(mk, "w", encoding="utf-8", newline="").write(text + "\n")
    rc, out, err = sh2(["make", "-f", mk, "-n", "-k", "-d", "out.rs"], cwd=tmp, timeout=60)
    names = []
    seen_target = False
    for l in out.splitlines():
        m = re.match(r"^( *)Considering target file '(.*)'\.$", l)
        if not m:
            continue
        if m.group(2) == "out.rs" and len(m.group(1)) == 0:
            seen_target = True
            continue
        if seen_target and len(m.group(1)) == 2:
            names.append(m.group(2))
    return names if seen_target else None


def classify_make(p):
    if p.endswith(" ") and "#" not in p and "$" not in p:
        return "C17-gnumake-trailing-blank"
    if "#" in p:
        return "C17-gnumake-hash"
    if "$" in p:
        return "C17-gnumake-dollar"
    if re.search(r"\\(?![ \\])", p) or p.endswith("\\") or re.search(r"\\\\(?! )(?!\\)", p):
        return "C17-gnumake-backslash"
    if "\\" in p:
        return "C17-gnumake-backslash"
    return "C17-gnumake-other"


def run(ck):
    quick = ck.tier == "quick"
    ck.coverage["rule"] = ("(a) random path sets over an alphabet with space, backslash, '#', '$', ':', '%', non-ASCII: hook to_string vs model (in Coq), model make-reader vs real make, "
                           "round trip through real make; (b) generated include DAGs (depth<=6, fan-out<=5, diamonds, guards/#pragma once, inactive #if regions, -I/-isystem, odd file names) "
                           "through a real generation with depfile + CargoCallbacks + recording callback; non-trivial = a path set with at least one escaped character / a DAG with >=3 files; "
                           "distinct by content")
    ck.trusted += ["hook verif_hooks::depfile_to_string = DepfileSpec::to_string on a BTreeSet built from the given paths",
                   "GNU make 4.3 as the reader oracle (`make -n -k -d`, 'Considering target file' lines)",
                   "clang -H as cross-check of the DAG generator's own ground truth",
                   "translator/tr_c17.py inventory of env::var* call sites (token level)",
                   "modelled, not verified: libclang's inclusion-directive cursors (oracle list in Model.reported); the cargo/ninja dialect reader parse_d is specification-side only (no such reader is installed to validate it)"]
    vlib.coq_check_properties(ck, "theories/C17/Properties.v")
    vlib.build_harness()
    r = ck.rng
    tmp = tempfile.mkdtemp(prefix="c17_", dir=CACHE)
    try:
        part_a(ck, r, tmp, 400 if quick else 5000)
        part_env(ck, tmp)
        part_dag(ck, r, tmp, 25 if quick else 300)
        part_symlink(ck, tmp)
    finally:
        shutil.rmtree(tmp, ignore_errors=True)


def part_a(ck, r, tmp, n):
    sets = [(["a b", "c\\d", "e"], "out mod"), (["a#b"], "o"), (["x$y"], "o"), (["p\\ q", "\\", " "], "o")]
    for _ in range(n):
        k = r.choice([1, 1, 2, 3, 5, 8])
        sets.append(([rand_path(r) for _ in range(k)], r.choice(["out.rs", "out mod", "m\\x", rand_path(r).replace(":", "c")])))
    res = vlib.bgv("dep", ["\t".join([enc(m)] + [enc(p) for p in ps]) for ps, m in sets])
    # --- tie 1 in Coq
    terms = []
    for (ps, m), out in zip(sets, res):
        ck.evaluations += 1
        if any(c in "".join(ps) for c in " \\#$"):
            ck.nontrivial.add(repr(sorted(set(ps))))
        terms.append("(%s, [%s], %s)" % (vlib.coq_str(m), "; ".join(vlib.coq_str(p) for p in ps), vlib.coq_str(dec(out))))
    shard = 300
    bodies = []
    for a in range(0, len(terms), shard):
        bodies.append("""From Coq Require Import NArith List Bool.
From BG Require Import C17.Model.
Import ListNotations. Open Scope N_scope.
Fixpoint mism (i : N) (cs : list (str * list str * str)) : list N :=
  match cs with [] => [] | (m, ps, out) :: t =>
    (if str_eqb (to_string m (set_of ps)) out then [] else [i]) ++ mism (i + 1) t end.
(* the model's make reader on the emitted prerequisites text *)
Definition cs := [
%s
].
Eval vm_compute in mism 0 cs.
Eval vm_compute in map (fun c => match c with (m, ps, out) =>
   match parse_make_deps (flat_map (fun d => SP :: escape d) (set_of ps)) with
   | Some l => 1 :: map (fun w => N.of_nat (length w)) l | None => [0] end end) cs.
""" % ";\n".join(terms[a:a + shard]))
    mism, model_make = [], []
    for si, (rc, out) in enumerate(vlib.coq_eval_many("c17_a", bodies)):
        if rc != 0:
            raise TieBroken("coq-eval:C17/a", out[-3000:])
        ls = vlib.parse_coq_nlists(out)
        if len(ls) < 2 or ls[0] is None or ls[1] is None:
            raise TieBroken("coq-eval:C17/a-parse", out[-2000:])
        mism += [si * shard + i for i in ls[0]]
        model_make += ls[1]
    ck.coverage["traces_validated_against_impl"] = len(sets) - len(mism)
    ck.obligation("correspondence:DepfileSpec::to_string==C17/Model.to_string", not mism, "%d path sets, %d mismatches" % (len(sets), len(mism)))
    if mism:
        det = [{"module": sets[i][1], "paths": sets[i][0], "implementation": dec(res[i])} for i in mism[:5]]
        ck.broken("correspondence", "DepfileSpec::to_string vs C17/Model.v", json.dumps(det, indent=1, ensure_ascii=False))
    # --- tie 2 + spec-level round trip through real make (ASCII, no quote, no '%' / '~' / '=' pattern magic kept out of the tie)
    bad_tie = []
    nmake = 0
    for idx, ((ps, m), out) in enumerate(zip(sets, res)):
        text = dec(out)
        deps_txt = text.split(":", 1)[1] if ":" in text else ""
        allp = sorted(set(ps), key=lambda s: s.encode())
        if any(ord(c) > 126 for c in "".join(ps)) or any(c in "".join(ps) for c in "'%~=:") or "" in ps:
            continue
        if idx % (1 if len(sets) < 600 else 5):
            continue
        nmake += 1
        got = make_parse("out.rs:" + deps_txt, tmp)
        mm = model_make[idx]
        # model prediction: lengths of words (cheap projection) vs make's words
        if got is not None:
            pred = None if mm[0] == 0 else mm[1:]
            dollar_var = any(re.search(r"\$(?!\$)", p) for p in ps)
            if pred is None:
                if not dollar_var:
                    bad_tie.append((ps, got, "model gave up, make did not"))
            elif [len(g.encode()) for g in got] != pred:
                # make lists a prerequisite that occurs twice only once ("Pruning file"): when a comment or an unescaped blank makes
                # two written paths read as the same word, the model's word list has the duplicate and make's debug listing has not
                gl = [len(g.encode()) for g in got]
                if not (len(gl) < len(pred) and sorted(set(gl)) == sorted(set(pred))):
                    bad_tie.append((ps, got, pred))
        ck.evaluations += 1
        if got is None or got != allp:
            bad = [p for p in allp if got is None or p not in got]
            cls = classify_make(bad[0] if bad else "".join(allp))
            ck.violation(cls, "GNU make does not read back the paths bindgen wrote to the depfile",
                         {"paths": allp, "depfile": text, "make_reads": got})
    ck.notes["make_runs"] = nmake
    ck.obligation("correspondence:GNU make==C17/Model.parse_make_deps", not bad_tie, "%d texts through real make, %d disagreements" % (nmake, len(bad_tie)))
    if bad_tie:
        ck.broken("correspondence", "GNU make vs C17/Model.parse_make_deps", json.dumps(bad_tie[:5], default=str))
    ck.sample({"paths": sets[0][0], "module": sets[0][1], "depfile": dec(res[0])})
    ck.sample({"paths": sets[5][0], "module": sets[5][1], "depfile": dec(res[5])})


def part_env(ck, tmp):
    try:
        sites = tr.main(REPO)
    except (tr.Shape, tr.LexError, OSError) as e:
        raise TieBroken("translator:env-sites", repr(e))
    ck.obligation("translator:env-site inventory", True, "%d env::var* sites" % len(sites))
    # dynamic: which variables does a real generation report?
    h = os.path.join(tmp, "e.h")
    open(h, "w").write("int x;\n")
    exe = os.path.join(vlib.TARGET, "debug", "bgv")
    rc, out, err = sh2([exe, "cargocb", "-", "rustfmt", "1", enc(h)], env={"RUSTFMT": "/nonexistent/rustfmt"}, timeout=120)
    reported = set(re.findall(r"^cargo:rerun-if-env-changed=(.*)$", out, re.M))
    consulted_rustfmt = "Failed to run rustfmt" in err or "rustfmt" in err.lower()
    ck.notes["env_reported_dynamic"] = sorted(reported)
    for s in sites:
        ck.evaluations += 1
        if s["via_env_var"]:
            continue
        v = s["var"] or "<dynamic>"
        if v in reported:
            ck.count("env_sites_bypassing_wrapper_but_reported_elsewhere")
            continue
        detail = {"site": s, "reported_by_a_real_generation": sorted(reported)}
        if v == "RUSTFMT":
            detail["dynamic_confirmation"] = "RUSTFMT=/nonexistent/rustfmt changes behaviour (%s) yet no rerun-if-env-changed=RUSTFMT line" % ("formatter failure reported" if consulted_rustfmt else "not observed")
        ck.violation("C17-env-unreported:" + v, "environment variable %s is read (%s, fn %s) without telling the callbacks, so cargo prints no rerun-if-env-changed line for it" % (v, s["file"], s["fn"]), detail)


class Dag:
    NAMES = ["a.h", "b c.h", "d#e.h", "f$g.h", "h\\i.h", "j.h", "k.h", "lé.h", "m m m.h", "n.h", "o%p.h", "q.h"]

    def __init__(self, r, root):
        self.r, self.root = r, root
        self.files = {}      # relpath -> text
        self.active = set()  # files actually read
        self.dirs = ["", "inc", "sys inc"]

    def build(self):
        r = self.r
        n = r.randrange(2, 12)
        names = r.sample(self.NAMES, min(n, len(self.NAMES)))
        rel = {}
        for i, nm in enumerate(names):
            d = r.choice(self.dirs) if i else ""
            rel[nm] = os.path.join(d, nm) if d else nm
        order = names[:]  # file i may include files j > i (acyclic), depth bounded by construction
        inc = {nm: [] for nm in names}
        for i, nm in enumerate(order):
            later = order[i + 1:]
            for tgt in r.sample(later, min(len(later), r.choice([0, 1, 1, 2, 3, 5]))):
                inc[nm].append((tgt, r.choice(["active", "active", "active", "if0", "ifdef_undefined"]), r.choice(["quote", "angle"])))
        for i, nm in enumerate(order):
            guard = r.choice(["guard", "pragma", "none"])
            lines = []
            tag = re.sub(r"\W", "_", nm).upper()
            if guard == "guard":
                lines += ["#ifndef G_%s" % tag, "#define G_%s" % tag]
            elif guard == "pragma":
                lines += ["#pragma once"]
            for tgt, mode, form in inc[nm]:
                d = os.path.dirname(rel[tgt])
                if form == "angle" or d != os.path.dirname(rel[nm]):
                    spell = "<%s>" % tgt if d else '"%s"' % tgt   # found through -I / -isystem
                    if not d and os.path.dirname(rel[nm]):
                        spell = '"../%s"' % tgt
                else:
                    spell = '"%s"' % tgt
                if mode == "active":
                    lines.append("#include %s" % spell)
                elif mode == "if0":
                    lines += ["#if 0", "#include %s" % spell, "#endif"]
                else:
                    lines += ["#ifdef NOT_DEFINED_ANYWHERE", "#include %s" % spell, "#endif"]
            if guard == "none":
                lines.append("typedef int t_%s_%d;" % (tag.lower(), i) if False else "extern int v_%s;" % tag.lower())
            else:
                lines.append("struct s_%s { int x; };" % tag.lower())
            if guard == "guard":
                lines.append("#endif")
            self.files[rel[nm]] = "\n".join(lines) + "\n"
        # ground truth: reachability over active includes
        todo, seen = [order[0]], set()
        while todo:
            x = todo.pop()
            if x in seen:
                continue
            seen.add(x)
            for tgt, mode, form in inc[x]:
                if mode == "active":
                    todo.append(tgt)
        # further input headers (library use: Builder::header several times); the LAST one is the main file,
        # the others reach clang as -include
        self.inputs = [rel[order[0]]]
        if len(order) > 2 and r.random() < 0.5:
            extra = r.sample(order[1:], min(len(order) - 1, r.choice([1, 2])))
            for x in extra:
                todo2, s2 = [x], set()
                while todo2:
                    y = todo2.pop()
                    if y in seen or y in s2:
                        continue
                    s2.add(y)
                    for tgt, mode, form in inc[y]:
                        if mode == "active":
                            todo2.append(tgt)
                seen |= s2
            self.inputs = [rel[x] for x in extra] + [rel[order[0]]]
        self.active = {rel[x] for x in seen}
        self.main = rel[order[0]]
        for p, t in self.files.items():
            full = os.path.join(self.root, p)
            os.makedirs(os.path.dirname(full), exist_ok=True)
            open(full, "w", encoding="utf-8").write(t)
        return self


def norm(p, root):
    p = os.path.normpath(os.path.join(root, p) if not os.path.isabs(p) else p)
    return os.path.relpath(p, root)


def part_dag(ck, r, tmp, n):
    exe = os.path.join(vlib.TARGET, "debug", "bgv")
    for case in range(n):
        root = os.path.join(tmp, "dag%d" % case)
        os.makedirs(root)
        d = Dag(r, root).build()
        dep = os.path.join(root, "out.d")
        cargs = ["-I" + os.path.join(root, "inc"), "-isystem", os.path.join(root, "sys inc"), "-I" + root]
        rc, out, err = sh2([exe, "cargocb", enc(dep), "none", str(len(d.inputs))] + [enc(h) for h in d.inputs] + [enc(a) for a in cargs], cwd=root, timeout=120)
        ck.evaluations += 1
        if len(d.files) >= 3:
            ck.nontrivial.add(json.dumps(sorted(d.files.items())))
        if "\nOK " not in "\n" + out:
            ck.violation("C17-dag-generation-failed", "bindgen failed on a generated include DAG", {"files": d.files, "main": d.main, "stdout": out[-500:], "stderr": err[-500:]})
            continue
        # cross-check truth with clang -H
        pre = []
        for h in d.inputs[:-1]:
            pre += ["-include", h]
        rc2, o2, e2 = sh2(["clang", "-fsyntax-only", "-H", "-x", "c"] + cargs + pre + [d.main], cwd=root, timeout=60)
        # clang -H doubles backslashes in the paths it prints
        clang_set = {norm(m.group(1).replace("\\\\", "\\"), root) for m in re.finditer(r"^\.+ (.*)$", e2, re.M)} | {os.path.normpath(h) for h in d.inputs}
        truth = {os.path.normpath(p) for p in d.active}
        if clang_set != truth:
            ck.count("dag_generator_truth_differs_from_clang_H")
            if len(d.inputs) == 1:
                truth = clang_set  # clang is the oracle for what was read
            # (clang -H does not list what a command-line -include pulls in, so with several inputs the generator's own
            #  reachability over active includes is the truth)
        hdr = {norm(dec(x), root) for x in re.findall(r"^CB header_file (.*)$", out, re.M)}
        inc = {norm(dec(x), root) for x in re.findall(r"^CB include_file (.*)$", out, re.M)}
        cargo = {norm(x, root) for x in re.findall(r"^cargo:rerun-if-changed=(.*)$", out, re.M)}
        deptext = open(dep, encoding="utf-8", errors="surrogateescape").read() if os.path.exists(dep) else ""
        # depfile through the dialect reader (python transcription of Model.parse_d; the Coq one runs below on a sample)
        dset = {norm(p, root) for p in parse_d_py(deptext)[1]}
        data = {"files": d.files, "input_headers": d.inputs, "clang_args": cargs, "read(clang -H)": sorted(truth), "header_file": sorted(hdr), "include_file": sorted(inc),
                "cargo_lines": sorted(cargo), "depfile": deptext}
        if hdr | inc != truth:
            missing, extra = truth - (hdr | inc), (hdr | inc) - truth
            ck.violation("C17-callbacks-%s" % ("missing" if missing else "extra"), "header_file/include_file notifications differ from the files read: missing %s extra %s" % (sorted(missing), sorted(extra)), data)
        if cargo != hdr | inc:
            ck.violation("C17-cargo-lines", "cargo rerun-if-changed lines differ from the notified files", data)
        if dset != truth:
            missing, extra = truth - dset, dset - truth
            ck.violation("C17-depfile-%s" % ("missing" if missing else "extra"), "depfile prerequisites differ from the files read: missing %s extra %s" % (sorted(missing), sorted(extra)), data)
        if not deptext.startswith("out.rs:"):
            ck.violation("C17-depfile-target", "depfile does not name the configured target", data)
        if case < 2:
            ck.sample({"dag_files": sorted(d.files), "read": sorted(truth), "depfile": deptext})
        # the Coq dialect reader on the real depfile text (tie of parse_d to real emitted files), sampled
        if case < 12:
            ck.notes.setdefault("_coq_depfiles", []).append((deptext, sorted(parse_d_py(deptext)[1], key=lambda s: s.encode("utf-8", "surrogateescape"))))
    pairs = ck.notes.pop("_coq_depfiles", [])
    if pairs:
        body = """From Coq Require Import NArith List Bool.
From BG Require Import C17.Model.
Import ListNotations. Open Scope N_scope.
Fixpoint lists_eqb (a b : list str) : bool := match a, b with [], [] => true | x :: a', y :: b' => str_eqb x y && lists_eqb a' b' | _, _ => false end.
Eval vm_compute in map (fun c => match parse_d (fst c) with Some (_, l) => if lists_eqb l (snd c) then 1 else 0 | None => 2 end) [
%s
].
""" % ";\n".join("(%s, [%s])" % (vlib.coq_str(t), "; ".join(vlib.coq_str(p) for p in parse_d_py(t)[1])) for t, _ in pairs)
        rc, out = vlib.coq_eval("c17_parse", body)
        ls = vlib.parse_coq_nlists(out) if rc == 0 else None
        ok = bool(ls) and ls[0] is not None and all(x == 1 for x in ls[0])
        ck.obligation("correspondence:python dialect reader==C17/Model.parse_d on emitted depfiles", ok, "%d depfiles" % len(pairs))
        if not ok:
            ck.broken("correspondence", "parse_d_py vs Model.parse_d", out[-1500:])


def part_symlink(ck, tmp):
    """paths with `..` after a symlinked directory: the OS resolves the link first, so the file read is not the one a lexical
    clean-up of the path names; reported dependencies are compared after realpath, against what was really read"""
    exe = os.path.join(vlib.TARGET, "debug", "bgv")
    for variant in ("quote", "angle-I"):
        root = os.path.join(tmp, "sym_" + variant)
        proj, real = os.path.join(root, "proj"), os.path.join(root, "real")
        os.makedirs(os.path.join(proj, "inc"))
        os.makedirs(real)
        os.symlink(os.path.join("..", "real"), os.path.join(proj, "link"))
        open(os.path.join(root, "config.h"), "w").write("#define WHICH_CONFIG 1\nstruct real_config { int a; };\n")
        open(os.path.join(proj, "config.h"), "w").write("#define WHICH_CONFIG 2\nstruct decoy_config { int b; };\n")
        open(os.path.join(real, "api.h"), "w").write('#include "../config.h"\nint api(struct real_config *);\n')
        open(os.path.join(proj, "local.h"), "w").write("struct local { int l; };\n")
        inc_api = '#include "link/api.h"' if variant == "quote" else "#include <api.h>"
        open(os.path.join(proj, "main.h"), "w").write(inc_api + '\n#include "./inc/../local.h"\nstruct main_s { struct local l; };\n')
        cargs = ["-I" + os.path.join(proj, "link")] if variant != "quote" else []
        dep = os.path.join(proj, "out.d")
        rc, out, err = sh2([exe, "cargocb", enc(dep), "none", "1", enc("main.h")] + [enc(a) for a in cargs], cwd=proj, timeout=120)
        ck.evaluations += 1
        ck.nontrivial.add(("symlink", variant))
        data = {"layout": "proj/main.h -> %s -> real/api.h -> \"../config.h\" (= <root>/config.h; proj/config.h is a decoy); proj/link -> ../real" % inc_api, "clang_args": cargs, "stdout": out[-800:]}
        if "\nOK " not in "\n" + out:
            ck.violation("C17-dag-generation-failed", "bindgen failed on the symlink layout", dict(data, stderr=err[-400:]))
            continue
        if "real_config" not in out and "OK" in out:
            pass
        rp = lambda x: os.path.realpath(x if os.path.isabs(x) else os.path.join(proj, x))
        truth = {rp(os.path.join(proj, "main.h")), rp(os.path.join(real, "api.h")), rp(os.path.join(root, "config.h")), rp(os.path.join(proj, "local.h"))}
        cbs = {rp(dec(x)) for x in re.findall(r"^CB (?:header_file|include_file) (.*)$", out, re.M)}
        deptext = open(dep, encoding="utf-8", errors="surrogateescape").read() if os.path.exists(dep) else ""
        dset = {rp(p) for p in parse_d_py(deptext)[1]}
        data.update({"read": sorted(truth), "callbacks(realpath)": sorted(cbs), "depfile(realpath)": sorted(dset), "depfile": deptext})
        for label, got in (("callbacks", cbs), ("depfile", dset)):
            if got != truth:
                missing, extra = truth - got, got - truth
                ck.violation("C17-%s-%s" % (label, "missing" if missing else "extra"), "%s differ from the files read (after realpath): missing %s extra %s" % (label, sorted(missing), sorted(extra)), data)


def parse_d_py(text):
    """transcription of Model.parse_d (dialect reader) used for the end-to-end sets"""
    text = text.rstrip("\n")
    i, cur = 0, []
    tgt = None
    while i < len(text):
        c = text[i]
        if c == "\\" and i + 1 < len(text) and text[i + 1] in "\\ ":
            cur.append(text[i + 1])
            i += 2
            continue
        if c == ":":
            tgt = "".join(cur)
            i += 1
            break
        cur.append(c)
        i += 1
    words, cur = [], []
    while i < len(text):
        c = text[i]
        if c == "\\" and i + 1 < len(text) and text[i + 1] in "\\ ":
            cur.append(text[i + 1])
            i += 2
            continue
        if c == " ":
            if cur:
                words.append("".join(cur))
            cur = []
        else:
            cur.append(c)
        i += 1
    if cur:
        words.append("".join(cur))
    return tgt, words


def replay(ck, path):
    print(open(path).read())
    run(ck)
