# C01 — generated bindings compile for every accepted header and option set.
#  theorems: C01/Properties.v (names: rust_mangle with the regenerated keyword list never yields a reserved word and always yields an
#            identifier; injective outside a characterised class (refuted inside); overload numbering unique unless a name ends in a digit)
#            + what C07 / C08 / C09 prove about generic parameters, derives and closure (their own checks)
#  tie: translator (keyword list); the real rust_ident/rust_mangle through generated keyword headers
#  oracle: rustc --edition E --crate-type lib on the bindings of generated C / C++ families and of clang-accepted token mutants of the
#          repository headers, crossed with option sets drawn from the flag space; failures classified by error code + documented hole
import os, re, sys, json, glob, shlex, tempfile, shutil, random
from concurrent.futures import ThreadPoolExecutor
import vlib, e2e, c04gen
from vlib import sh, sh2, ROOT, REPO, COQ, CACHE, TieBroken
sys.path.insert(0, os.path.join(ROOT, "translator"))
sys.path.insert(0, os.path.join(ROOT, "props"))
import tr_c01 as tr

CTY = "pub mod cty { pub type c_void = ::core::ffi::c_void; pub type c_char = i8; pub type c_schar = i8; pub type c_uchar = u8; pub type c_short = i16; pub type c_ushort = u16; pub type c_int = i32; pub type c_uint = u32; pub type c_long = i64; pub type c_ulong = u64; pub type c_longlong = i64; pub type c_ulonglong = u64; pub type c_float = f32; pub type c_double = f64; }\n"


def option_set(r, cpp):
    """(flags, edition, needs_nightly, closed_derives)"""
    fl = []
    o = {k: r.random() < 0.35 for k in ("default", "hash", "partialeq", "eq", "partialord", "ord")}
    # keep the derive options closed under Rust's supertraits most of the time (the open sets are a C08 known finding)
    if r.random() < 0.9:
        if o["ord"]:
            o["eq"] = o["partialord"] = True
        if o["partialord"] or o["eq"]:
            o["partialeq"] = True
    for k, v in o.items():
        if v:
            fl.append("--with-derive-" + k)
    closed = (not o["ord"] or (o["eq"] and o["partialord"])) and (not o["partialord"] or o["partialeq"]) and (not o["eq"] or o["partialeq"])
    for f, p in (("--no-derive-copy", 0.1), ("--no-derive-debug", 0.1), ("--impl-debug", 0.2), ("--impl-partialeq", 0.2), ("--no-layout-tests", 0.3), ("--explicit-padding", 0.15),
                 ("--sort-semantically", 0.2), ("--merge-extern-blocks", 0.2), ("--wrap-unsafe-ops", 0.2), ("--use-core", 0.2), ("--c-naming", 0.1), ("--no-prepend-enum-name", 0.1),
                 ("--translate-enum-integer-types", 0.1), ("--generate-inline-functions", 0.1), ("--enable-function-attribute-detection", 0.1), ("--use-array-pointers-in-arguments", 0.1),
                 ("--fit-macro-constant-types", 0.1), ("--no-doc-comments", 0.1), ("--generate-cstr", 0.1), ("--disable-untagged-union", 0.05), ("--no-size_t-is-usize", 0.05),
                 ("--no-convert-floats", 0.05), ("--no-record-matches", 0.05)):
        if r.random() < p:
            fl.append(f)
    if r.random() < 0.5:
        fl += ["--default-enum-style", r.choice(["consts", "moduleconsts", "bitfield", "newtype", "newtype_global", "newtype_global_module"[:14], "rust", "rust_non_exhaustive"])]
    if r.random() < 0.3:
        fl += ["--default-alias-style", r.choice(["type_alias", "new_type", "new_type_deref"])]
    if r.random() < 0.2:
        fl += ["--default-non-copy-union-style", r.choice(["bindgen_wrapper", "manually_drop"])]
    if r.random() < 0.2:
        fl += ["--default-macro-constant-type", r.choice(["signed", "unsigned"])]
    if r.random() < 0.15:
        fl += ["--ctypes-prefix", "crate::cty"]
    if cpp:
        for f, p in (("--enable-cxx-namespaces", 0.5), ("--conservative-inline-namespaces", 0.1), ("--vtable-generation", 0.2), ("--respect-cxx-access-specs", 0.2),
                     ("--generate-private-functions", 0.1), ("--generate-deleted-functions", 0.05), ("--generate-pure-virtual-functions", 0.1), ("--no-convert-floats", 0.05)):
            if r.random() < p and f not in fl:
                fl.append(f)
    ed = r.choice(["2018", "2021", "2021", "2024"])
    nightly = False
    x = r.random()
    if ed == "2024":
        # bindgen's newest known stable release predates the 2024 edition: it is only selectable with the nightly target
        fl += ["--rust-target", "nightly"]
        nightly = True
    elif x < 0.25:
        fl += ["--rust-target", r.choice(["1.64", "1.68", "1.73", "1.76", "1.77", "1.81"])]
    fl += ["--rust-edition", ed]
    return fl, ed, nightly, closed


def keyword_header(r, kws):
    ks = r.sample(kws + ["a$b", "$x", "y$", "_", "__", "_1"], 14)
    ks = [k for k in ks if k not in ("typeof", "alignof", "sizeof", "static", "struct", "enum", "const", "extern", "return", "if", "else", "for", "while", "do", "break", "continue",
                                     "bool", "true", "false", "unsigned", "signed")]
    h = ""
    use = iter(ks * 3)
    roles = ["var", "field", "param", "typedef", "variant", "tag", "fn", "macro", "fnptr-param", "union-field"]
    for i, role in enumerate(r.sample(roles, len(roles))):
        k = next(use)
        if role == "var":
            h += "extern int %s;\n" % k
        elif role == "field":
            k2 = next(use)
            h += "struct kf%d { int %s; char %s; };\n" % (i, k, k2 if k2 != k else "zz")
        elif role == "param":
            h += "int kp%d(int %s, char other);\n" % (i, k)
        elif role == "typedef":
            h += "typedef long %s_t%d;\ntypedef int kt%d_%s;\n" % (re.sub(r"\W", "", k) or "u", i, i, re.sub(r"\W", "", k) or "u")
        elif role == "variant":
            h += "enum ke%d { %s%d = 1, plain%d };\n" % (i, k if k not in ("_",) else "v", i, i) if False else "enum ke%d { ke%d_%s = 1, plain%d };\n" % (i, i, re.sub(r"\W", "x", k), i)
        elif role == "tag":
            if re.match(r"^[A-Za-z_]\w*$", k):
                h += "struct %s { int inside; };\nstruct %s *ktag%d(void);\n" % (k, k, i)
        elif role == "fn":
            h += "int %s(void);\n" % k if False else ""
        elif role == "macro":
            if re.match(r"^[A-Za-z_]\w*$", k):
                h += "#define %s_M%d 7\n" % (k.upper() if k != "_" else "U", i)
        elif role == "fnptr-param":
            h += "void kfp%d(int (*%s)(int %s));\n" % (i, k, next(use))
        elif role == "union-field":
            h += "union ku%d { int %s; float other; };\n" % (i, k)
    return h


def cpp_family(r):
    n = r.choice([2, 4, 6])
    h = "namespace outer { namespace inner { struct NS { int a; }; } typedef inner::NS NSAlias; }\n"
    h += "template <typename T, typename U = int> struct Tmpl { T t; U *u; typedef T value; };\ntemplate <typename T> struct Unused { int n; };\n"
    names = []
    for i in range(n):
        base = (" : public " + r.choice(names)) if names and r.random() < 0.4 else ""
        body = ""
        for k in range(r.randrange(1, 4)):
            body += "  %s m%d;\n" % (r.choice(["int", "double", "char *", "Tmpl<int>", "Tmpl<double, char>", "Unused<float>", "outer::NSAlias", "bool"] + names), k)
        if r.random() < 0.4:
            body += "  virtual void vm%d();\n" % i
        if r.random() < 0.3:
            body += "  C%d();\n  C%d(int x);\n  ~C%d();\n" % (i, i, i)
        if r.random() < 0.4:
            body += "  int over(int a);\n  int over(double a);\n  static int st%d(int a);\n  int cm() const;\n" % i
        if r.random() < 0.3:
            body += "  struct Nested { int q; enum { NA, NB } e; };\n  Nested nested;\n"
        if r.random() < 0.2:
            body += "  int operator+(const C%d &o);\n" % i
        h += "class C%d%s {\npublic:\n%s};\n" % (i, base, body)
        names.append("C%d" % i)
    h += "int over_free(int);\nint over_free(char);\nint over_free1();\n" if r.random() < 0.3 else "int over_free(int);\nint over_free(char);\n"
    # records that need one of bindgen's helper types, each alone inside its own (possibly nested) namespace: the helper definition has to
    # reach the root module whichever namespace first needs it
    helpers = HELPERS
    for k, (nm, text) in enumerate(r.sample(helpers, r.choice([1, 1, 2, 3]))):
        depth = r.choice([1, 1, 2])
        h += "".join("namespace h%s%d { " % (nm, q) for q in range(depth)) + "\n" + text + "\n" + "}" * depth + "\n"
    return h


HELPERS_ = [("fam", "struct Fam { unsigned len; unsigned char payload[]; };"), ("bitf", "struct Bf { unsigned a : 3; unsigned b : 9; int c; };"),
               ("wrapunion", "struct Dt { ~Dt(); int x; };\nunion Wu { Dt d; int i; };"), ("complex", "struct Cx { double _Complex z; };"),
               ("f16", "struct Hf { __fp16 h; int i; };"), ("blob", "struct Ob { int a; double b; };\ntypedef int vec4 __attribute__((vector_size(16)));\nstruct Vh { vec4 v; };"),
               ("bigalign", "struct Al { char c; } __attribute__((aligned(64)));\nstruct Ho { char x; Al a; };")]
HELPERS = HELPERS_


def classify(stderr, closed, flags):
    codes = re.findall(r"error\[(E\d+)\]", stderr)
    code = codes[0] if codes else "E?"
    why = "other"
    newtype = bool(re.search(r"new[-_]type", " ".join(flags)))
    if "E0587" in codes or "E0588" in codes:
        code, why = ("E0588" if "E0588" in codes else "E0587"), "packed-align"
    elif "E0133" in codes:
        why = "unsafe-union-field"
    elif "E0080" in codes and not [c for c in codes if c not in ("E0080",)]:
        why = "layout-assertion"
    elif "E0793" in codes:
        code, why = "E0793", "packed-field-reference"
    elif code in ("E0428", "E0124", "E0415", "E0416", "E0119"):
        why = "duplicate-name"
    elif code == "E0277":
        if not closed and re.search(r"can't compare|: Eq` is not satisfied", stderr):
            why = "supertrait-option-gap"
        elif re.search(r"__BindgenOpaqueArray\d*<", stderr) and re.search(r"PartialOrd|Ord|can't compare", stderr):
            why = "opaque-blob-lacks-partialord"
        elif re.search(r"__BindgenUnionField<", stderr) and re.search(r"can't compare|PartialOrd|Ord", stderr):
            why = "union-field-lacks-partialord"
        else:
            why = "member-lacks-trait"
    elif code in ("E0412", "E0425", "E0433", "E0432"):
        m = re.search(r"cannot find (?:type|value|function|struct|trait)[^`]*`([^`]+)`|unresolved import `([^`]+)`|failed to resolve: [^`]*`([^`]+)`", stderr)
        nm = m and (m.group(1) or m.group(2) or m.group(3)) or "?"
        why = "unresolved:" + re.sub(r"\d+", "N", nm)[:24]
    elif code == "E0658":
        why = "unstable-feature"
    elif "E0107" in codes and re.search(r"missing generics for struct", stderr) and "new_type" in " ".join(flags):
        code, why = "E0107", "newtype-alias-template"
    elif code == "E0080":
        why = "layout-assertion"
    elif code == "E0605" and re.search(r"non-primitive cast", stderr):
        why = "newtype-alias-cast"
    elif code == "E0423" and re.search(r"expected function, found (?:builtin type|type alias)", stderr):
        why = "newtype-alias-constant"
    elif code == "E0308" and newtype and not [c for c in codes if c != "E0308"] and all(
            "arguments to this struct are incorrect" in blk or
            (lambda m: bool(m) and m.group(1) != m.group(2))(re.search(r"pub const \w+: (\w+) = [^\n]*\n[^\n]*expected `(\w+)`, found", blk))
            for blk in re.split(r"(?m)^(?=error\[E0308\])", stderr) if blk.startswith("error[E0308]")):
        # (the second form: the constant's declared type is a plain alias of a new-type alias; the value is not wrapped at all)
        # a constant of a typedef OF A TYPEDEF: wrapped once, `outer_t(2)`, where the field of outer_t is inner_t
        why = "newtype-alias-chain-constant"
    elif code == "E0308" and re.search(r"ManuallyDrop<\s*__BindgenBitfieldUnit", stderr) and not [c for c in codes if c != "E0308"]:
        # a union with bit-fields under the manually_drop union style: the raw accessors take the address of the ManuallyDrop wrapper
        why = "union-bitfield-manually-drop"
    elif code == "E?" and "error:" in stderr:
        m = re.search(r"^error: (.*)$", stderr, re.M)
        why = re.sub(r"[^A-Za-z]+", "-", m.group(1) if m else "")[:40].strip("-")
    # one canonical code per documented hole (the first code rustc prints varies with the rest of the header)
    code = {"unsafe-union-field": "E0133", "packed-field-reference": "E0793", "layout-assertion": "E0080", "supertrait-option-gap": "E0277", "opaque-blob-lacks-partialord": "E0277",
            "union-field-lacks-partialord": "E0277", "member-lacks-trait": "E0277"}.get(why, code)
    return code, why


def run(ck):
    quick = ck.tier == "quick"
    ck.coverage["rule"] = ("(header, option set) pairs: generated record graphs (bit-fields, packed / aligned / pragma pack, flexible arrays, unions, nesting), function libraries (keywords, '$', asm labels, "
                           "callbacks, variadics, by-value aggregates, globals), derive trees, declaration graphs with typedef chains and valued constants, keyword / '$' identifiers in every declaration role, "
                           "C++ (namespaces, inheritance, virtual methods, templates with used / unused parameters, nested classes, overloads, constructors / destructors, operators) and clang-accepted "
                           "token mutants of the repository headers; option sets drawn from the flag space (derives, impl-debug/partialeq, enum / alias / union styles, namespaces, c-naming, explicit "
                           "padding, use-core, ctypes-prefix, layout tests, sort / merge, wrap-unsafe-ops, editions 2018/2021/2024, rust targets 1.64..current); each output compiled by "
                           "`rustc --crate-type lib --edition E`; non-trivial = a pair whose bindings are non-empty; distinct by (header, flags)")
    ck.trusted += ["rustc 1.95 as the judge (parses, resolves, type-checks derives and impls, evaluates the const assertions)",
                   "translator/tr_c01.py (keyword list of rust_mangle; fails closed on shape changes)",
                   "not covered by any theorem: well-typedness of the quote! templates themselves (impl bodies, method wrappers): sampled by the sweep only",
                   "options that need a cooperating crate or toolchain are left out of the sweep: --dynamic-loading (libloading), --flexarray-dst (nightly ptr_metadata), objective-c; "
                   "so are --disable-name-namespacing and --disable-nested-struct-naming, which are documented to produce clashing names"]
    try:
        kws = tr.main(REPO, os.path.join(COQ, "gen", "C01_Table.v"))
    except (tr.Shape, tr.LexError, OSError) as e:
        raise TieBroken("translator:rust_mangle", repr(e))
    ck.obligation("translator:rust_mangle->C01_Table.v", True, "%d keywords" % len(kws))
    vlib.coq_check_properties(ck, "theories/C01/Properties.v")
    bindgen = vlib.build_cli()
    r = ck.rng
    tmp = tempfile.mkdtemp(prefix="c01_", dir=CACHE)
    try:
        import c08 as c08mod, c09 as c09mod, c12 as c12mod, c07 as c07mod
        cases = []
        N = 12 if quick else 300
        for i in range(N):
            g = e2e.Gen(r, bitfields=(i % 2 == 0), attrs=(i % 3 != 0))
            cases.append(("records", g.header(10), False))
        for i in range(N):
            lib = c04gen.Lib(random.Random(r.getrandbits(32)), r.choice([3, 8, 20]))
            cases.append(("functions", lib.header(), False))
        for i in range(N):
            while True:
                env, order = c08mod.gen_graph(r, r.choice([3, 5, 7]))
                if c08mod.valid_c(env, order):
                    break
            cases.append(("derive-trees", c08mod.header(env, order), False))
        for i in range(N):
            cases.append(("decl-graphs", c09mod.Decls(r, r.choice([6, 9, 12])).header(), False))
        for i in range(N):
            cases.append(("keywords", keyword_header(r, kws), False))
        for i in range(N):
            cases.append(("cpp", cpp_family(r), True))
        for nm, text in HELPERS:
            # one helper type alone inside a namespace, with namespaces enabled: its definition must still reach the root module
            cases.append(("cpp-helper:" + nm, "namespace outer_%s { namespace inner {\n%s\n} }\nint unrelated(int);\n" % (nm, text), True))
        # alias styles x every role a typedef name can have (constant of the type, member, parameter, result, pointer target, array element,
        # chain of typedefs, typedef of an enum / struct / function pointer): user typedef names only (the <stdint.h> names are the known
        # class newtype-alias-constant)
        ALIAS_H = ("typedef unsigned int handle_t;\nstatic const handle_t INVALID_HANDLE = 0;\nstatic const handle_t MAX_HANDLE = 4294967295u;\n"
                   "typedef float ratio_t;\nstatic const ratio_t HALF = 0.5f;\ntypedef handle_t handle2_t;\nstatic const handle2_t SECOND = 2;\n"
                   "typedef long long big_t;\nstatic const big_t NEG = -5;\ntypedef char ch_t;\nstatic const ch_t LETTER = 'x';\n"
                   "enum color { RED, GREEN = 7 };\ntypedef enum color color_t;\nstruct pt { int x; };\ntypedef struct pt pt_t;\ntypedef int (*cb_t)(handle_t);\n"
                   "struct session { handle_t h; ratio_t r; handle2_t h2[3]; const handle_t *ph; color_t c; pt_t p; cb_t cb; };\n"
                   "handle_t open_session(struct session *s, handle2_t h, ratio_t r, color_t c, pt_t p, cb_t cb);\nextern handle_t last_handle;\n")
        fixed = {}
        for style in ("type_alias", "new_type", "new_type_deref"):
            for extra in ([], ["--with-derive-default", "--with-derive-partialeq", "--with-derive-hash"], ["--no-layout-tests", "--use-core"]):
                fixed[len(cases)] = ["--default-alias-style", style, "--rust-edition", "2021"] + extra
                cases.append(("alias-styles", ALIAS_H, False))
        for opt in ("--new-type-alias", "--new-type-alias-deref", "--normal-alias"):
            for rx in ("handle_t", "handle.*|ratio_t", ".*_t"):
                fixed[len(cases)] = [opt, rx, "--rust-edition", "2021"] + (["--default-alias-style", "new_type"] if opt == "--normal-alias" else [])
                cases.append(("alias-styles", ALIAS_H, False))
        # C++ member functions in every parameter-naming shape (the wrapper's call site and its signature number unnamed parameters
        # independently): unnamed / named-then-unnamed / parameters literally called arg0, arg1 / references / defaults, for static, const,
        # virtual, overloaded methods, constructors, destructors and operators
        MEMBERS_H = ("struct Ev { int k; };\nenum St { SA, SB };\nclass Buffer {\npublic:\n  int n;\n  Buffer();\n  Buffer(unsigned);\n  Buffer(const char *data, unsigned, int);\n  ~Buffer();\n"
                     "  static Buffer *create(unsigned);\n  static int count(int, char, double);\n  static void named_static(int first, int);\n"
                     "  int write(const char *data, unsigned, int);\n  int read(char *, unsigned len) const;\n  int refs(Ev &, const Ev &e, St, Ev *);\n"
                     "  int defaults(int a = 3, int = 4);\n  virtual int vm(int, Ev);\n  virtual int pure(St) = 0;\n  int over(int);\n  int over(double, int);\n  Buffer &operator+=(const Buffer &);\n"
                     "  bool operator==(const Buffer &) const;\n  void (*cb)(int, char);\n  int takes_cb(int (*)(int, Ev *), void (*named)(void));\n};\n"
                     "class Derived : public Buffer {\npublic:\n  Derived(int, int b);\n  int vm(int, Ev) override;\n  int pure(St) override;\n  static Derived make(Ev, int);\n};\n"
                     "namespace ns { class Inner { public: Inner(int); static int mk(int, Ev); int m(Ev, int x) const; }; }\n"
                     "int free_fn(int, Ev, int named);\n")
        for extra in ([], ["--enable-cxx-namespaces"], ["--wrap-unsafe-ops", "--no-layout-tests"], ["--vtable-generation", "--generate-inline-functions"],
                      ["--generate-pure-virtual-functions", "--generate-deleted-functions", "--with-derive-default"], ["--use-core", "--no-derive-copy", "--disable-name-namespacing"][:2]):
            fixed[len(cases)] = ["--rust-edition", "2021"] + extra
            cases.append(("cpp-members", MEMBERS_H, True))
        # (known finding: the generated name of an unnamed parameter can collide with a real parameter called argN)
        fixed[len(cases)] = ["--rust-edition", "2021"]
        cases.append(("arg-name-clash", "class K { public: int arg_clash(int arg1, int, int arg0); };\nint free_clash(int arg1, int, int arg0);\n", True))
        for i in range(N // 2):
            gph = c07mod.Graph(r, r.choice([3, 5, 8]))
            cases.append(("cpp-graphs", gph.render(gph.orders(1)[0]), True))
        # token mutants of repository headers that clang still accepts
        hs = sorted(glob.glob(os.path.join(REPO, "bindgen-tests/tests/headers/*.h")) + glob.glob(os.path.join(REPO, "bindgen-tests/tests/headers/*.hpp")))
        hs = [h for h in hs if "objc" not in os.path.basename(h)]
        pool = [open(h, errors="replace").read() for h in hs[:80]]
        muts = []
        for i in range(N * 3):
            h = r.choice(hs)
            t = open(h, errors="replace").read()
            m = t
            for _ in range(r.choice([0, 1, 1, 2])):
                m = c12mod.mutate(r, m, pool)
            muts.append((h, m))
        jobs = []
        for k, (fam, hdr, cpp) in enumerate(cases):
            fl, ed, nightly, closed = option_set(r, cpp)
            if fam.startswith("cpp-helper:"):
                fl, ed, closed = ["--enable-cxx-namespaces", "--rust-edition", "2021"], "2021", True
            if k in fixed:
                fl, ed, closed = fixed[k], "2021", True
            jobs.append((k, fam, hdr, cpp, fl, ed, closed, None))
        for k, (h, m) in enumerate(muts):
            hfl, cl = c12mod.header_flags(h)
            if "rustbindgen attribute=" in m or "rustbindgen derive=" in m:
                continue      # user-supplied attributes / derives can make anything uncompilable (e.g. cfg(test) on a field)
            if any(x.startswith(("--field-attr", "--with-attribute-custom", "--with-derive-custom")) for x in hfl):
                continue      # user-supplied attributes / derives (e.g. cfg(test) on a field)
            if any(x in hfl for x in ("--represent-cxx-operators", "--use-distinct-char16-t", "--dynamic-loading", "--block-extern-crate", "--generate-block", "--raw-line", "--module-raw-line", "--ctypes-prefix")) or \
               any(x.startswith("--blocklist") for x in hfl) or "objc" in " ".join(cl):
                continue      # needs another crate / names the user supplies (raw lines, blocklisted items, custom ctypes)
            # the header's own flags (they may be needed for it to make sense) plus an edition
            ed = "2021"
            jobs.append((len(cases) + k, "mutant:" + os.path.basename(h), m, h.endswith(".hpp"), hfl, ed, True, (h, cl)))

        def one(j):
            k, fam, hdr, cpp, fl, ed, closed, origin = j
            d = os.path.join(tmp, "c%d" % k)
            os.makedirs(d)
            ext = ".hpp" if cpp else ".h"
            p = os.path.join(d, "t" + ext)
            open(p, "w").write(hdr)
            if origin:
                cl = origin[1] + ["-I", os.path.dirname(origin[0]), "-I", os.path.join(os.path.dirname(origin[0]), "..")]
            else:
                cl = (["-x", "c++", "-std=c++17"] if cpp else ["-std=gnu11"])
            rc0, _, e0 = sh2(["clang", "-fsyntax-only", "-w"] + cl + [p], timeout=60, cwd=d)
            if rc0 != 0:
                return j, ("rejected", e0[-300:])
            rc, out, err = sh2([bindgen, p] + fl + ["--"] + cl, timeout=60, cwd=d)
            if rc != 0:
                return j, ("bindgen-failed", rc, err[-500:])
            m = re.search(r"--rust-edition\s+(\d+)", " ".join(fl))
            ed = m.group(1) if m else ed
            pre = "#![allow(warnings)]\n" + (CTY if "crate::cty" in fl else "")
            src = os.path.join(d, "b.rs")
            open(src, "w").write(pre + out)
            rc2, so, se = sh2(["rustc"] + (["+nightly"] if "nightly" in fl else []) + ["--edition", ed, "--crate-type", "lib", "--emit", "metadata", "-A", "warnings", "-o", os.path.join(d, "b.rmeta"), src], timeout=300, cwd=d)
            shutil.rmtree(d, ignore_errors=True)
            return j, ("compiled" if rc2 == 0 else "rustc-error", se, len(out))
        with ThreadPoolExecutor(max_workers=vlib.NCPU) as ex:
            results = list(ex.map(one, jobs))
        hist = {}
        for (k, fam, hdr, cpp, fl, ed, closed, origin), res in results:
            fam0 = fam.split(":")[0]
            hist[(fam0, res[0])] = hist.get((fam0, res[0]), 0) + 1
            if res[0] == "rejected":
                if fam0 != "mutant":
                    raise TieBroken("c01-generator", "clang rejects a generated %s header: %s\n%s" % (fam, res[1], hdr[:1500]))
                continue
            ck.evaluations += 1
            data = {"family": fam, "flags": fl, "edition": ed, "header": hdr if len(hdr) < 5000 else hdr[:5000]}
            if res[0] == "bindgen-failed":
                # C12's business (panic / error on an accepted header); reported there, counted here
                ck.count("bindgen_failed_on_accepted_header(%s)" % fam0)
                ck.notes.setdefault("bindgen_failures", {})
                key = (res[2].strip().splitlines() or ["?"])[-1][:120]
                ck.notes["bindgen_failures"][key] = ck.notes["bindgen_failures"].get(key, 0) + 1
                continue
            if res[2] > 60:
                ck.nontrivial.add(hdr + " ".join(fl))
            if res[0] == "rustc-error":
                code, why = classify(res[1], closed, fl)
                errs = e2e.rustc_errors(res[1], 3)
                ck.violation("C01-rustc:%s:%s" % (code, why), "rustc rejects the bindings of a header clang accepts", dict(data, rustc=errs, stderr=res[1][-1200:]))
        import c01_wrap
        vlib.coq_check_properties(ck, "theories/C01/WrapProperties.v")
        c01_wrap.run(ck, bindgen, tmp, MEMBERS_H)
        ck.notes["outcomes"] = {"%s/%s" % k: v for k, v in sorted(hist.items())}
        (k, fam, hdr, cpp, fl, ed, closed, origin), res = results[0]
        ck.sample({"family": fam, "flags": fl, "edition": ed, "outcome": res[0]})
    finally:
        shutil.rmtree(tmp, ignore_errors=True)


def replay(ck, path):
    print(open(path).read())
    run(ck)
