# C12 — generation always ends with bindings or an error value, never a panic.
#  theorems: C12/Properties.v (outcome decision of Builder::generate is total; rust-target string parsing; resolver termination)
#  tie + search: the real CLI on token/line mutants of the repository headers and on generated deep nestings,
#      classified by `clang -fsyntax-only`; filesystem faults; edition/target strings; outcome class vs C12/Model
import os, re, sys, json, glob, shlex, stat, tempfile, shutil
from concurrent.futures import ThreadPoolExecutor
import vlib
from vlib import sh, sh2, ROOT, REPO, COQ, CACHE, TieBroken

TOK = re.compile(r"[A-Za-z_]\w*|\d[\w.]*|\"(?:[^\"\\\n]|\\.)*\"|'(?:[^'\\\n]|\\.)*'|//[^\n]*|/\*.*?\*/|\s+|.", re.S)


def header_flags(h):
    first = open(h, errors="replace").readline()
    m = re.match(r"//\s*bindgen-flags:\s*(.*)", first)
    fl = shlex.split(m.group(1)) if m else []
    cl = []
    if "--" in fl:
        i = fl.index("--")
        fl, cl = fl[:i], fl[i + 1:]
    if h.endswith(".hpp") and "-x" not in cl:
        cl = cl + ["-x", "c++"]
    if h.endswith(".hpp") and not any(a.startswith("-std") for a in cl):
        cl = cl + ["-std=c++14"]
    # flags that write files or need other inputs are dropped
    # options documented as needing a cooperating callback to produce valid names are outside the claim
    drop = {"--wrap-static-fns", "--experimental", "--depfile", "--represent-cxx-operators", "--use-distinct-char16-t"}
    out, skip = [], 0
    for i, f in enumerate(fl):
        if skip:
            skip -= 1
            continue
        if f in ("--depfile", "--wrap-static-fns-path", "--wrap-static-fns-suffix", "--rustfmt-configuration-file", "--output", "-o"):
            skip = 1
            continue
        if f in drop:
            continue
        out.append(f)
    return out, cl


def mutate(r, text, others):
    toks = TOK.findall(text)
    idx = [i for i, t in enumerate(toks) if not t.isspace() and not t.startswith(("//", "/*"))]
    if len(idx) < 3:
        return text
    k = r.choice(["delete", "dup", "swap", "splice", "subst-ident", "subst-lit", "delete-line", "dup-line"])
    if k == "delete":
        del toks[r.choice(idx)]
    elif k == "dup":
        i = r.choice(idx)
        toks.insert(i, toks[i])
    elif k == "swap":
        i, j = r.sample(idx, 2)
        toks[i], toks[j] = toks[j], toks[i]
    elif k == "splice" and others:
        o = TOK.findall(r.choice(others))
        a = r.randrange(len(o))
        i = r.choice(idx)
        toks[i:i] = o[a:a + r.randrange(1, 12)]
    elif k == "subst-ident":
        ids = [i for i in idx if re.match(r"[A-Za-z_]\w*$", toks[i])]
        if ids:
            toks[r.choice(ids)] = r.choice(["int", "struct", "T", "x", "operator", "template", "typename", "const", "void", "auto", "__attribute__", "enum", "0"])
    elif k == "subst-lit":
        ls = [i for i in idx if re.match(r"\d", toks[i])]
        if ls:
            toks[r.choice(ls)] = r.choice(["0", "-1", "18446744073709551616", "1e400", "0x", "077777777777777777777777", "1/0", "(1<<64)"])
    else:
        lines = "".join(toks).split("\n")
        i = r.randrange(len(lines))
        if k == "delete-line":
            del lines[i]
        else:
            lines.insert(i, lines[i])
        return "\n".join(lines)
    return "".join(toks)


def classify(rc, err):
    if rc == 124:
        return "hang"
    if rc == 0:
        return "bindings"
    if rc == 101 or "panicked at" in err:
        return "panic"
    if rc < 0 or rc >= 128:
        return "signal"
    return "error"


def run(ck):
    quick = ck.tier == "quick"
    ck.coverage["rule"] = ("token- and line-level mutants (delete, duplicate, swap, splice from another header, identifier/literal substitution) of the repository headers run through the real CLI "
                           "with the header's own flags, each classified by `clang -fsyntax-only` with the same language flags: accepted => bindings, rejected => error value carrying diagnostics; "
                           "never a panic (exit 101), signal or hang (20 s); plus deep nesting (pointers, arrays, structs, templates), missing path / directory / unreadable file, unsupported "
                           "edition/target pairs and malformed --rust-target strings; non-trivial = a mutant that differs from its origin; distinct by mutant text")
    ck.trusted += ["clang -fsyntax-only as the accept/reject oracle; exit status 101 / 'panicked at' = panic, negative status = signal, 20 s timeout = hang",
                   "modelled, not verified: the 33 kLoC between libclang's AST and the bindings are only exercised; panic freedom is sampled, the outcome decision logic is what is proved"]
    if os.path.exists(os.path.join(COQ, "theories", "C12", "Properties.v")):
        vlib.coq_check_properties(ck, "theories/C12/Properties.v")
    bindgen = vlib.build_cli()
    r = ck.rng
    tmp = tempfile.mkdtemp(prefix="c12_", dir=CACHE)
    try:
        hs = sorted(glob.glob(os.path.join(REPO, "bindgen-tests/tests/headers/*.h")) + glob.glob(os.path.join(REPO, "bindgen-tests/tests/headers/*.hpp")))
        hs = [h for h in hs if "objc" not in os.path.basename(h)]
        texts = {h: open(h, errors="replace").read() for h in hs}
        pool = list(texts.values())
        jobs = []
        n = 600 if quick else 20000
        for i in range(n):
            h = r.choice(hs)
            t = texts[h]
            m = t
            for _ in range(r.choice([1, 1, 1, 2, 3])):
                m = mutate(r, m, pool)
            if m == t:
                continue
            ext = ".hpp" if h.endswith(".hpp") else ".h"
            p = os.path.join(tmp, "m%d%s" % (i, ext))
            # keep the flag line first so that relative includes still resolve through -I
            open(p, "w").write(m)
            fl, cl = header_flags(h)
            jobs.append((p, fl, cl + ["-I", os.path.dirname(h), "-I", os.path.join(os.path.dirname(h), "..")], os.path.basename(h), m))
        # deep nesting
        for depth in ([50, 200] if quick else [50, 100, 150, 200]):      # the property speaks of nesting up to depth 200
            for kind, text in (("ptr", "int " + "*" * depth + "p;\n"), ("arr", "int a" + "[2]" * min(depth, 60) + ";\n"),
                               ("struct", "".join("struct s%d { " % i for i in range(depth)) + "int x;" + "".join(" } m%d;" % i for i in range(depth)) + "\n"),
                               ("paren", "int (" * depth + "v" + ")" * depth + ";\n"),
                               ("fnptr", "void " + "(*" * min(depth, 100) + "f" + ")(void)" * min(depth, 100) + ";\n")):
                p = os.path.join(tmp, "deep_%s_%d.h" % (kind, depth))
                open(p, "w").write(text)
                jobs.append((p, [], [], "deep-%s-%d" % (kind, depth), text))
            p = os.path.join(tmp, "deep_tmpl_%d.hpp" % depth)
            open(p, "w").write("template<class T> struct W { T t; };\n" + "W<" * depth + "int" + ">" * depth + " v;\n")
            jobs.append((p, [], ["-x", "c++", "-std=c++14", "-ftemplate-depth=2000"], "deep-template-%d" % depth, ""))

        # literal macros: every character / string literal prefix x a narrow, a byte-sized, a wide and a non-ASCII value, multi-character
        # constants, and numeric literals at the limits (found through a seeding agent's notes: `#define W L'\x1234'` aborted the run)
        lits = []
        for pre in ("", "L", "u", "U", "u8"):
            for body in ("a", "\\xff", "\\x1234", "\u00e9", "\\0", "ab", "\\377", "\\U0001F600"):
                lits.append("%s'%s'" % (pre, body))
            for body in ("wide", "\u00e9t\u00e9", "a\\0b", "\\xff\\xfe", ""):
                lits.append('%s"%s"' % (pre, body))
        lits += ["18446744073709551615ULL", "0xFFFFFFFFFFFFFFFFFFFFULL", "1e400", "0x1p-1074", "1.0e-400f", "-9223372036854775807LL - 1", "'\\''", "1/0", "1%0", "(char)300", "~0u", "-1u"]
        for li, lit in enumerate(lits):
            for cxx in (False, True):
                pth = os.path.join(tmp, "lit_%d%s" % (li, ".hpp" if cxx else ".h"))
                text = "#define LIT_%d %s\n#define AFTER_%d 7\n" % (li, lit, li)
                open(pth, "w").write(text)
                jobs.append((pth, [], (["-x", "c++", "-std=c++17"] if cxx else ["-std=c11"]), "literal-macro", text))

        # type-constructor x element-type sweep: every way of building a type applied to every builtin element type clang knows
        # (accepted or not is decided per header by clang); C and C++ spellings, plus the same constructors over a template parameter
        elems_c = ["int", "unsigned char", "_Bool", "float", "double", "long double", "__int128", "unsigned __int128", "_Float16", "__fp16", "__bf16", "__float128",
                   "_BitInt(7)", "unsigned _BitInt(32)", "_BitInt(128)", "_Complex float", "_Complex double", "_Complex int", "void *", "char", "wchar_t_", "enum EN", "struct ST", "union UN",
                   "td_t", "_Atomic int", "_Atomic(long)", "short", "long long", "fnp_t", "__builtin_va_list", "_Accum", "void"]
        ctors = [("plain", "typedef %s T0;"), ("ptr", "typedef %s *T0;"), ("cptr", "typedef const %s *const T0;"), ("arr", "typedef %s T0[4];"), ("arr2", "typedef %s T0[2][3];"), ("inc", "extern %s T0[];"),
                 ("vec", "typedef %s T0 __attribute__((vector_size(16)));"), ("ext", "typedef %s T0 __attribute__((ext_vector_type(4)));"), ("ext3", "typedef %s T0 __attribute__((ext_vector_type(3)));"),
                 ("complex", "typedef _Complex %s T0;"), ("atomic", "typedef _Atomic(%s) T0;"), ("fnret", "%s T0(void);"), ("fnarg", "void T0(%s a);"), ("fnptr", "typedef %s (*T0)(%s);"),
                 ("field", "struct S0 { %s m; };"), ("bitf", "struct S0 { %s m : 3; };"), ("ufield", "union S0 { %s m; int k; };"), ("fam", "struct S0 { int n; %s m[]; };"),
                 ("var", "extern %s T0;"), ("cvar", "static const %s T0 = 0;"), ("aligned", "typedef %s T0 __attribute__((aligned(32)));"), ("typeof", "typedef __typeof__(%s) T0;")]
        prelude_c = "enum EN { EN_A, EN_B };\nstruct ST { int a; };\nunion UN { int a; float f; };\ntypedef int td_t;\ntypedef int wchar_t_;\ntypedef int (*fnp_t)(int);\n"
        sweep = []
        for cn, ct in ctors:
            for e in elems_c:
                sweep.append(("c", cn, e, prelude_c + ct.replace("%s", e) + "\nT0_USE\n"))
        elems_cpp = ["T", "const T", "T *", "T &", "int", "char8_t", "char16_t", "decltype(nullptr)", "bool", "_BitInt(9)", "__bf16", "_Float16", "W<T>", "typename W<T>::type"]
        ctors_cpp = [("alias", "template <typename T> using A0 = %s;"), ("alias-ext", "template <typename T> using A0 = %s __attribute__((ext_vector_type(4)));"),
                     ("alias-vec", "template <typename T> using A0 = %s __attribute__((vector_size(16)));"), ("member", "template <typename T> struct A0 { %s m; };"),
                     ("member-ext", "template <typename T> struct A0 { typedef %s type __attribute__((ext_vector_type(4))); type m; };"), ("member-arr", "template <typename T> struct A0 { %s m[3]; };"),
                     ("fn", "template <typename T> %s f0(%s);"), ("static", "template <typename T> struct A0 { static %s m; };"), ("base", "template <typename T> struct A0 : W<%s> {};"),
                     ("default", "template <typename T = %s> struct A0 { T m; };")]
        prelude_cpp = "template <typename U> struct W { typedef U type; U u; };\n"
        for cn, ct in ctors_cpp:
            for e in elems_cpp:
                for inst in ("", "A0<float> v0;\n", "typedef A0<int> I0; I0 f1(I0);\n"):
                    if inst and cn in ("fn",):
                        continue
                    sweep.append(("cpp", cn, e, prelude_cpp + ct.replace("%s", e) + "\n" + inst))
        if quick:
            # the whole constructor x element table is small: keep all of C, sample C++
            sweep = [x for x in sweep if x[0] == "c"] + r.sample([x for x in sweep if x[0] == "cpp"], 150)
        for k, (lang, cn, e, text) in enumerate(sweep):
            text = text.replace("T0_USE\n", "")
            p = os.path.join(tmp, "sw%d.%s" % (k, "h" if lang == "c" else "hpp"))
            open(p, "w").write(text)
            jobs.append((p, [], (["-std=gnu2x"] if lang == "c" else ["-x", "c++", "-std=c++20"]), "sweep-%s-%s-%s" % (lang, cn, re.sub(r"\W+", "_", e)), text))

        # calling-convention attributes (also those Rust has no ABI string for) on functions, function pointers, typedefs, members
        for tgt in ("x86_64-unknown-linux-gnu", "i686-unknown-linux-gnu", "x86_64-pc-windows-msvc", "aarch64-unknown-linux-gnu"):
            for a in ("regcall", "preserve_most", "preserve_all", "sysv_abi", "ms_abi", "vectorcall", "stdcall", "fastcall", "thiscall", "pascal", "swiftcall", "intel_ocl_bicc", 'pcs("aapcs")', "aarch64_vector_pcs"):
                text = ("int __attribute__((%s)) cf(int a);\ntypedef int (__attribute__((%s)) *cfp_t)(int);\nstruct CH { cfp_t p; int (__attribute__((%s)) *q)(int, int); };\n"
                        "cfp_t cget(void);\nvoid ctake(int (__attribute__((%s)) *cb)(void));\n" % ((a,) * 4))
                p = os.path.join(tmp, "cc_%s_%s.h" % (tgt.split("-")[0] + tgt.split("-")[2][:3], re.sub(r"\W+", "_", a)))
                open(p, "w").write(text)
                jobs.append((p, [], ["--target=" + tgt, "-ffreestanding"], "callconv-%s-%s" % (tgt, a), text))
        # annotation sweep: every rustbindgen annotation, with well- and ill-formed values, attached to every kind of declaration
        anns = [("replaces", v) for v in ("Target", "TargetE", "TargetT", "TargetTmpl", "Missing", "", "D0", "ns::Target", "Target<int>")] + \
               [(a, None) for a in ("hide", "opaque", "nocopy", "nodebug", "nodefault", "mustusetype", "constant")] + \
               [("private", v) for v in ("true", "false", "", "maybe")] + [("accessor", v) for v in ("unsafe", "immutable", "false", "bogus", "")] + \
               [("derive", v) for v in ("Clone", "Debug,Clone", "", "((", "1+")] + [("attribute", v) for v in ("#[allow(dead_code)]", "allow(dead_code)", "((", "", "#[")]
        decls = [("struct", "%s struct D0 { int a; };"), ("enum", "%s enum D0 { D0_A, D0_B };"), ("typedef", "%s typedef int D0;"), ("typedef-struct", "%s typedef struct Target D0;"),
                 ("var-builtin", "%s extern int D0;"), ("const-var", "%s static const double D0 = 1.5;"), ("var-struct", "%s extern struct Target D0;"), ("var-ptr", "%s extern struct Target *D0;"),
                 ("function", "%s int D0(int);"), ("field", "struct H0 { %s int a; int b; };"), ("bitfield", "struct H0 { %s int a : 3; int b : 5; };"), ("variant", "enum H0 { %s H0_A, H0_B };"),
                 ("union", "%s union D0 { int a; float f; };"), ("static-member", "struct H0 { %s static int D0; };"), ("static-const-member", "struct H0 { %s static const int D0 = 3; };"),
                 ("alias-template", "%s template<class T> using D0 = T*;"), ("namespace", "%s namespace D0 { int q; }"), ("method", "struct H0 { %s int D0(); };"),
                 ("class-template", "%s template<class T> struct D0 { T t; };"), ("ctor", "struct H0 { %s H0(int); };"), ("inner-struct", "struct H0 { %s struct D0 { int z; } m; };")]
        prelude_ann = "struct Target { int t; };\nenum TargetE { TE_A };\ntypedef int TargetT;\ntemplate<class T> struct TargetTmpl { T x; };\nnamespace ns { struct Target { char c; }; }\n"
        ann_jobs = []
        for an, av in anns:
            tag = "<div rustbindgen %s%s></div>" % (an, "" if av is None else '="%s"' % av)
            for dk, dt in decls:
                ann_jobs.append(("ann-%s-%s-%s" % (an, re.sub(r"\W+", "_", av or "none"), dk), prelude_ann + dt.replace("%s", "/** %s */" % tag) + "\nstruct User0 { Target t; TargetT k; };\n"))
        if quick:
            ann_jobs = [x for x in ann_jobs if x[0].startswith("ann-replaces")] + r.sample([x for x in ann_jobs if not x[0].startswith("ann-replaces")], 150)
        for k, (origin, text) in enumerate(ann_jobs):
            p = os.path.join(tmp, "an%d.hpp" % k)
            open(p, "w").write(text)
            jobs.append((p, [], ["-x", "c++", "-std=c++17"], origin, text))

        def one(j):
            p, fl, cl, origin, text = j
            lang = cl
            rc0, o0, e0 = sh2(["clang", "-fsyntax-only", "-w"] + lang + [p], timeout=60)
            rc, o, e = sh2([bindgen, p] + fl + ["--"] + cl, timeout=20, cwd=tmp)
            return j, rc0, classify(rc, e), rc, e
        with ThreadPoolExecutor(max_workers=vlib.NCPU) as ex:
            res = list(ex.map(one, jobs))
        hist = {}
        for (p, fl, cl, origin, text), rc0, cls, rc, err in res:
            ck.evaluations += 1
            ck.nontrivial.add(text or origin)
            accepted = rc0 == 0
            hist[(accepted, cls)] = hist.get((accepted, cls), 0) + 1
            data = {"origin": origin, "flags": fl, "clang_args": [c for c in cl if not c.startswith("/")], "clang_accepts": accepted, "exit": rc, "stderr": err[-700:], "input": text if len(text) < 6000 else text[:6000]}
            if cls in ("panic", "signal", "hang"):
                where = re.search(r"panicked at ([^\n:]+:\d+)", err)
                msg = re.search(r"panicked at [^\n]*\n([^\n]*)", err)
                # keyed by file and message, not by line: an unrelated edit above the site must not turn a known panic into a new one
                mtxt = (msg.group(1) if msg else "")
                if "is not a valid Ident" in mtxt:
                    mtxt = "is not a valid Ident"      # (the message quotes the offending text: keep the class independent of the input)
                key = ((re.sub(r"^/rustc/[0-9a-f]+/", "", re.sub(r":\d+$", "", where.group(1).replace(REPO + "/", ""))) + ":" + re.sub(r"[^A-Za-z]+", "-", mtxt.split(":")[0])[:40].strip("-")) if where
                       else ("-".join(origin.split("-")[:2]) if origin.startswith("deep-") else ("annotation-" + origin.split("-")[1]) if origin.startswith("ann-") else "mutant"))
                ck.violation("C12-%s:%s" % (cls, key), "generation ends with a %s instead of bindings or an error value (%s)" % (cls, (msg.group(1)[:100] if msg else "")), data)
            elif accepted and cls == "error":
                ck.violation("C12-accepted-but-error", "clang accepts the header but bindgen returns an error", data)
            elif not accepted and cls == "bindings":
                # bindgen sees the errors through libclang; an input the clang driver rejects must not yield bindings
                ck.violation("C12-rejected-but-bindings", "clang rejects the header yet bindgen emits bindings", data)
            elif not accepted and cls == "error" and not re.search(r"error|diag", err, re.I):
                ck.violation("C12-error-without-diagnostics", "the error for a rejected header carries no clang diagnostics", data)
        ck.notes["outcome_histogram"] = {"%s/%s" % ("accepted" if a else "rejected", c): v for (a, c), v in sorted(hist.items())}
        ck.sample({"mutant_of": res[0][0][3], "clang_accepts": res[0][1] == 0, "outcome": res[0][2]})
        # ---- filesystem faults and option errors: specific error values
        fs = []
        missing = os.path.join(tmp, "no", "such.h")
        d = os.path.join(tmp, "adir.h")
        os.makedirs(d)
        unread = os.path.join(tmp, "unreadable.h")
        open(unread, "w").write("int x;\n")
        os.chmod(unread, 0)
        ok_h = os.path.join(tmp, "ok.h")
        open(ok_h, "w").write("int x;\n")
        fs.append((["%s" % missing], "error", r"[Nn]ot exist|No such|cannot find|doesn't exist|does not exist"))
        fs.append((["%s" % d], "error", r"[Ff]older|directory"))
        if os.geteuid() != 0:
            fs.append((["%s" % unread], "error", r"[Pp]ermission"))
        fs.append(([ok_h, "--rust-target", "1.60", "--rust-edition", "2024"], "error", r"edition"))
        fs.append(([ok_h, "--rust-target", "1.30"], "error", r"earliest|not a valid"))
        fs.append(([ok_h, "--rust-target", "banana"], "error", r"not a valid|invalid"))
        for s in ("1.0-nightly", "1.0.0-nightly", "1.-nightly", "1.18446744073709551615.0-nightly", "1.51-nightly", "1..", "1.82.0-beta.", "nightly-", "1.82-", ""):
            fs.append(([ok_h, "--rust-target", s], None, None))
        fs.append(([ok_h, "--rust-edition", "2019"], "error", r"edition|invalid"))
        for args, expect, pat in fs:
            rc, o, e = sh2([bindgen] + args, timeout=20, cwd=tmp)
            cls = classify(rc, e)
            ck.evaluations += 1
            ck.nontrivial.add(" ".join(args[-3:]))
            data = {"args": [a.replace(tmp, "<tmp>") for a in args], "exit": rc, "stderr": e[-500:]}
            if cls in ("panic", "signal", "hang"):
                where = re.search(r"panicked at ([^\n:]+:\d+)", e)
                msg = re.search(r"panicked at [^\n]*\n([^\n]*)", e)
                ck.violation("C12-%s:%s" % (cls, (re.sub(r":\d+$", "", where.group(1).replace(REPO + "/", "")) + ":" + re.sub(r"[^A-Za-z]+", "-", (msg.group(1) if msg else "").split(":")[0])[:40].strip("-")) if where else "cli"),
                             "option / path handling ends with a %s" % cls, data)
            elif expect and cls != expect:
                ck.violation("C12-wrong-outcome", "expected outcome %s, got %s" % (expect, cls), data)
            elif expect == "error" and pat and not re.search(pat, e):
                ck.violation("C12-unspecific-error", "the error does not name the specific problem (%s)" % pat, data)
        os.chmod(unread, 0o644)
    finally:
        shutil.rmtree(tmp, ignore_errors=True)


def replay(ck, path):
    print(open(path).read())
    run(ck)
