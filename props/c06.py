# C06 — embedded layout assertions are complete and state the C compiler's numbers.
#  theorems: C06/Properties.v (which assertions accompany a composite / an instantiation: complete, sound, none when off)
#  tie: assertions parsed from the real output vs C06/Model.comp_assertions on the H1 dump of the same run (in Coq)
#  numbers: asserted numbers vs clang (host: sizeof/_Alignof/offsetof probe; other targets: _Static_assert with --target)
#  layout tests off: no assertion and nothing else changes; both assertion forms (const block / #[test] fn)
import os, re, sys, json, glob, shlex, tempfile, shutil
from concurrent.futures import ThreadPoolExecutor
import vlib, irdump, e2e
from vlib import sh, sh2, ROOT, REPO, COQ, CACHE, TieBroken

TARGETS = ["x86_64-unknown-linux-gnu", "i686-unknown-linux-gnu", "aarch64-unknown-linux-gnu", "armv7-unknown-linux-gnueabihf", "riscv64-unknown-linux-gnu",
           "x86_64-pc-windows-msvc", "i686-pc-windows-msvc", "wasm32-unknown-unknown"]


def parse_assertions(out):
    """{type: {"size": n, "align": n, "offsets": {field: n}}} from both assertion forms"""
    res = {}
    pats = [(r'\["Size of ([^"]+)"\]\s*\[[^\]]*?-\s*(\d+)usize\s*\]', "size"), (r'\["Alignment of ([^"]+)"\]\s*\[[^\]]*?-\s*(\d+)usize\s*\]', "align"),
            (r'assert_eq!\s*\(\s*::\w+::mem::size_of::<[^>]+>\(\)\s*,\s*(\d+)usize\s*,\s*"Size of ([^"]+)"', "size2"),
            (r'assert_eq!\s*\(\s*::\w+::mem::align_of::<[^>]+>\(\)\s*,\s*(\d+)usize\s*,\s*"Alignment of ([^"]+)"', "align2")]
    for pat, k in pats:
        for m in re.finditer(pat, out):
            if k.endswith("2"):
                res.setdefault(m.group(2), {"offsets": {}})[k[:-1]] = int(m.group(1))
            else:
                res.setdefault(m.group(1), {"offsets": {}})[k] = int(m.group(2))
    for m in re.finditer(r'\["Offset of field: ([^":]+)::(\w+)"\]\s*\[[^\]]*?-\s*(\d+)usize\s*\]', out):
        res.setdefault(m.group(1), {"offsets": {}})["offsets"][m.group(2)] = int(m.group(3))
    for m in re.finditer(r'as usize - ptr as usize\s*\}\s*,\s*(\d+)usize\s*,\s*"Offset of field: ([^":]+)::(\w+)"', out):
        res.setdefault(m.group(2), {"offsets": {}})["offsets"][m.group(3)] = int(m.group(1))
    inst = {}
    for m in re.finditer(r'"Size of template specialization: ([^"]+)"\]\s*\[[^\]]*?-\s*(\d+)usize', out):
        inst.setdefault(m.group(1), {})["size"] = int(m.group(2))
    for m in re.finditer(r'"Align of template specialization: ([^"]+)"\]\s*\[[^\]]*?-\s*(\d+)usize', out):
        inst.setdefault(m.group(1), {})["align"] = int(m.group(2))
    return res, inst


def header_flags(h):
    first = open(h, errors="replace").readline()
    m = re.match(r"//\s*bindgen-flags:\s*(.*)", first)
    fl = shlex.split(m.group(1)) if m else []
    cl = []
    if "--" in fl:
        i = fl.index("--")
        fl, cl = fl[:i], fl[i + 1:]
    if h.endswith(".hpp") and "-x" not in cl:
        cl = cl + ["-x", "c++"]
    if h.endswith(".hpp") and not any(a.startswith("-std") for a in cl):
        cl = cl + ["-std=c++14"]
    out, skip = [], 0
    for f in fl:
        if skip:
            skip -= 1
            continue
        if f in ("--depfile", "--wrap-static-fns-path", "--wrap-static-fns-suffix", "--rustfmt-configuration-file"):
            skip = 1
            continue
        if f in ("--wrap-static-fns", "--no-layout-tests"):
            continue
        out.append(f)
    return out, cl


def comp_term(d, it):
    fs = []
    names = {}
    k = 0
    for f in it["fields"]:
        if f["kind"] == "D":
            fs.append("{| f_id := %d; f_named := %s; f_bitfield := false; f_offset_bits := %s |}" % (k, "true" if f["name"] else "false", "None" if f["bitoff"] < 0 else "(Some %d)" % f["bitoff"]))
            names[k] = f["name"]
            k += 1
        else:
            for b in f["bitfields"]:
                fs.append("{| f_id := %d; f_named := %s; f_bitfield := true; f_offset_bits := Some 0 |}" % (k, "true" if b["name"] else "false"))
                names[k] = b["name"]
                k += 1
    lay = "None" if it["size"] < 0 else "(Some (%d, %d))" % (it["size"], it["align"])
    t = "{| c_forward_decl := %s; c_has_template_params := %s; c_opaque := %s; c_layout := %s; c_fields := [%s] |}" % (
        "true" if it["fwd"] == "1" else "false", "true" if it["all_tparams"] != "-" else "false", "true" if it["opaque"] else "false", lay, "; ".join(fs))
    return t, names


def run(ck):
    quick = ck.tier == "quick"
    ck.coverage["rule"] = ("(a) repository headers (own flags) and generated record types: assertions parsed from the output vs the model applied to the IR dump of the same run, for every composite "
                           "emitted; (b) generated plain records: asserted numbers vs clang for the host (probe) and for 8 targets (_Static_assert under clang --target); rustc must accept the "
                           "assertions; (c) --no-layout-tests: no assertion, rest of the text identical; (d) rust target 1.76 (#[test] form) vs default (const form): same numbers; "
                           "non-trivial = a composite with >= 1 named member; distinct by type text")
    ck.trusted += ["hook H1 dump (fields, offsets, layout, forward/opaque/template flags as codegen sees them)", "clang 14 --target=<t> as the oracle for every target's record layout",
                   "regex parser of the two assertion forms in props/c06.py",
                   "modelled, not verified: libclang's layout queries (Type::fallible_layout, offset_of_field) are the oracle inside the theorem; vtable/base members have no offset assertion by construction"]
    vlib.coq_check_properties(ck, "theories/C06/Properties.v")
    ok, out = vlib.coq_make(["theories/C06/Model.vo"])
    if not ok:
        raise TieBroken("coq-build:C06", out)
    bindgen = vlib.build_cli()
    r = ck.rng
    tmp = tempfile.mkdtemp(prefix="c06_", dir=CACHE)
    try:
        jobs = []
        hs = sorted(glob.glob(os.path.join(REPO, "bindgen-tests/tests/headers/*.h")) + glob.glob(os.path.join(REPO, "bindgen-tests/tests/headers/*.hpp")))
        hs = [h for h in hs if "objc" not in h]
        r.shuffle(hs)
        for h in hs[:50 if quick else 600]:
            fl, cl = header_flags(h)
            jobs.append((os.path.basename(h), h, fl, cl, os.path.dirname(h), None))
        gens = []
        for b in range(6 if quick else 80):
            g = e2e.Gen(r, bitfields=(b % 2 == 0), attrs=False)
            hdr = g.header(15)
            p = os.path.join(tmp, "g%d.h" % b)
            open(p, "w").write(hdr)
            gens.append((b, g.recs, hdr, p))
            jobs.append(("gen%d" % b, p, [], [], tmp, b))

        def one(j):
            label, h, fl, cl, cwd, gi = j
            rc, out, err, d = irdump.run_dump(bindgen, h, fl, cl, cwd=cwd, log=os.path.join(tmp, "log_" + re.sub(r"\W", "_", label)))
            return j, rc, out, err, d
        with ThreadPoolExecutor(max_workers=vlib.NCPU) as ex:
            results = list(ex.map(one, jobs))
        terms, metas = [], []
        gen_out = {}
        for (label, h, fl, cl, cwd, gi), rc, out, err, d in results:
            if rc != 0 or d is None or not d.complete:
                ck.count("skipped_bindgen_failed")
                continue
            if gi is not None:
                gen_out[gi] = out
            asserts, insts = parse_assertions(out)
            emitted_l = re.findall(r"pub (?:struct|union) (\w+)", out)
            # the same Rust name in several modules (C++ namespaces) cannot be told apart by the text parser
            emitted = {n for n in emitted_l if emitted_l.count(n) == 1}
            ck.count("types_skipped_ambiguous_name", len(set(emitted_l)) - len(emitted))
            for i, it in d.items.items():
                if it["ikind"] != "type" or it.get("tkind") != "Comp" or not it["codegen"] or not it["canon"] or it["canon"] not in emitted:
                    continue
                if it.get("nontype_tparams") == "1":
                    continue
                t, names = comp_term(d, it)
                got = asserts.get(it["canon"], {"offsets": {}})
                inv = {v: k for k, v in names.items() if v}
                # rust_ident mangles keywords (name_) : map back by stripping one trailing underscore when needed
                offs = []
                unknown = []
                for fname, n in sorted(got["offsets"].items()):
                    key = inv.get(fname, inv.get(fname[:-1] if fname.endswith("_") else fname))
                    if key is None:
                        unknown.append(fname)
                    else:
                        offs.append("AOffset %d %d" % (key, n))
                if unknown:
                    ck.count("assertion_for_unknown_field")
                gl = (["ASize %d" % got["size"]] if "size" in got else []) + (["AAlign %d" % got["align"]] if "align" in got else []) + offs
                terms.append("(%s, [%s])" % (t, "; ".join(gl)))
                metas.append((label, it["canon"], got, it))
                ck.evaluations += 1
                if any(f["kind"] == "D" and f["name"] for f in it["fields"]):
                    ck.nontrivial.add(label + "::" + it["canon"])
        # ---- compare inside Coq (as multisets: the model lists size, align, then fields in order; the parser sorts by name)
        shard = 300
        bodies = []
        for a in range(0, len(terms), shard):
            bodies.append("""From Coq Require Import NArith List Bool.
From BG Require Import C06.Model.
Import ListNotations. Open Scope N_scope.
Definition aeqb (x y : assertion) : bool := match x, y with ASize a, ASize b => a =? b | AAlign a, AAlign b => a =? b | AOffset f a, AOffset g b => (f =? g) && (a =? b) | _, _ => false end.
Definition subset (l m : list assertion) : bool := forallb (fun x => existsb (aeqb x) m) l.
Definition cases : list (comp * list assertion) := [
%s
].
Eval vm_compute in map (fun c => let m := comp_assertions true (fst c) in
    (if subset m (snd c) then 0 else 1) + (if subset (snd c) m then 0 else 2)) cases.
""" % ";\n".join(terms[a:a + shard]))
        res = []
        for rc, out in vlib.coq_eval_many("c06_cases", bodies):
            if rc != 0:
                raise TieBroken("coq-eval:C06", out[-2500:])
            ls = vlib.parse_coq_nlists(out)
            if not ls or ls[0] is None:
                raise TieBroken("coq-eval:C06-parse", out[-1500:])
            res += ls[0]
        nbad = 0
        for (label, canon, got, it), v in zip(metas, res):
            if v == 0:
                continue
            nbad += 1
            if v & 1:
                # the model (= the property's completeness clause on this dump) expects an assertion that is not there
                ck.violation("C06-assertion-missing", "a concrete composite with a known layout lacks a size / alignment / member-offset assertion",
                             {"header": label, "type": canon, "emitted_assertions": got, "fields": it["fields"], "layout": [it["size"], it["align"]]})
            else:
                ck.violation("C06-assertion-extra", "an assertion is emitted that the rules do not call for", {"header": label, "type": canon, "emitted_assertions": got, "fields": it["fields"]})
        ck.coverage["traces_validated_against_impl"] = len(res) - nbad
        ck.obligation("correspondence:emitted assertions==C06/Model.comp_assertions on IR dumps", nbad == 0, "%d composites, %d differ" % (len(res), nbad))
        if metas:
            ck.sample({"header": metas[0][0], "type": metas[0][1], "assertions": metas[0][2]})
        # ---- (b) numbers: host
        for b, recs, hdr, p in gens:
            out = gen_out.get(b)
            if out is None:
                continue
            cn, err = e2e.c_probe(p, recs, tmp, "g%d" % b)
            if cn is None:
                raise TieBroken("clang-probe", err[-400:])
            asserts, _ = parse_assertions(out)
            for rec in recs:
                ck.evaluations += 1
                a, c = asserts.get(rec.name), cn.get(rec.name)
                if a is None or c is None:
                    continue
                offs_ok = all(c["offsets"].get(k) == v for k, v in a["offsets"].items())
                if a.get("size") != c["size"] or a.get("align") != c["align"] or not offs_ok:
                    ck.violation("C06-number", "an asserted number differs from the C compiler's", {"record": rec.text(), "asserted": a, "clang": c})
            # rustc must accept the assertions (they are compile-time checks of the Rust types)
            src = os.path.join(tmp, "lt%d.rs" % b)
            open(src, "w").write("#![allow(warnings)]\n" + out + "\nfn main() {}\n")
            rc, o, e = sh2(["rustc", "--edition", "2021", "-A", "warnings", "--emit", "metadata", "-o", os.path.join(tmp, "lt%d.rmeta" % b), src], cwd=tmp, timeout=300)
            ck.evaluations += 1
            if rc != 0:
                errs = e2e.rustc_errors(e, 2)
                code = (re.search(r"E\d{4}", " ".join(errs)) or ["other"])[0] if errs else "other"
                feats = sorted(set().union(*[x.features for x in recs]))
                if code == "E0054" and "bitfield" in feats:
                    code = "E0133"      # same defect: accessors of a union with bit-fields that is not a Rust union (unsafe calls, u8 as bool)
                ck.violation("C06-assertions-rejected:%s:%s" % (code, "bitfield" if "bitfield" in feats else "plain"),
                             "rustc rejects the bindings with their layout assertions (an assertion does not hold for the generated Rust type, or the bindings do not compile)",
                             {"header": hdr if len(hdr) < 4000 else hdr[:4000], "rustc": errs})
            # (c) off
            rc, off, err = sh2([bindgen, p, "--no-layout-tests"], timeout=120)
            a_off, i_off = parse_assertions(off)
            if a_off or i_off or "bindgen_test_layout" in off:
                ck.violation("C06-off-still-asserts", "--no-layout-tests still emits assertions", {"header": hdr[:2000], "found": a_off})
            stripped = re.sub(r"#\[allow\(clippy::unnecessary_operation, clippy::identity_op\)\]\s*const _: \(\) = \{.*?\n\};\n", "", out, flags=re.S)
            if stripped.strip() != off.strip():
                ck.violation("C06-off-changes-more", "disabling layout tests changes something besides the assertions", {"header": hdr[:2000]})
            # (d) #[test] form
            rc, old, err = sh2([bindgen, p, "--rust-target", "1.76"], timeout=120)
            a_old, _ = parse_assertions(old)
            if rc == 0 and a_old != asserts:
                ck.violation("C06-forms-differ", "the #[test] form (no offset_of!) states different numbers than the const form", {"header": hdr[:2000]})
        # ---- (d') the two assertion forms on packed / aligned / pragma-pack records (their numbers are C02's business; here only:
        #      both forms must assert the same things)
        for b in range(4 if quick else 40):
            g = e2e.Gen(r, bitfields=False, attrs=True)
            hdr = g.header(12)
            p = os.path.join(tmp, "pk%d.h" % b)
            open(p, "w").write(hdr)
            rc1, new_, err = sh2([bindgen, p], timeout=120)
            rc2, old, err = sh2([bindgen, p, "--rust-target", "1.76"], timeout=120)
            ck.evaluations += 1
            if rc1 != 0 or rc2 != 0:
                continue
            ck.nontrivial.add(hdr)
            a_new, _ = parse_assertions(new_)
            a_old, _ = parse_assertions(old)
            if a_new != a_old:
                diff = {t: {"const_form": a_new.get(t), "test_form": a_old.get(t)} for t in sorted(set(a_new) | set(a_old)) if a_new.get(t) != a_old.get(t)}
                first = sorted(diff)[0]
                rec = next((x for x in g.recs if x.name == first), None)
                ck.violation("C06-forms-differ", "the #[test] form (no offset_of!) asserts different things than the const form",
                             {"header": hdr[:3000], "type": rec.text() if rec else first, "difference": {first: diff[first]}, "flags": ["--rust-target", "1.76"]})
        # ---- cross targets (portable spellings only: no __int128, no `long` bit-fields wider than 32)
        xgens = []
        for b in range(2 if quick else 20):
            g = e2e.Gen(r, bitfields=(b % 2 == 0), attrs=False, portable=True)
            hdr = g.header(15)
            p = os.path.join(tmp, "x%d.h" % b)
            open(p, "w").write(hdr)
            xgens.append((1000 + b, g.recs, hdr, p))
        for b, recs, hdr, p in xgens:
            for t in TARGETS:
                rc, out, err = sh2([bindgen, p, "--", "--target=" + t], timeout=120)
                ck.evaluations += 1
                if rc != 0:
                    ck.violation("C06-target-failed:" + t, "bindgen fails for this target", {"target": t, "stderr": err[-400:]})
                    continue
                asserts, _ = parse_assertions(out)
                lines = ['#include <stddef.h>', '#include "%s"' % os.path.basename(p)]
                for rec in recs:
                    a = asserts.get(rec.name)
                    # completeness on this target too: size, alignment and every named non-bit-field member that is a field of the emitted type
                    body = e2e.struct_body(out, rec.name)
                    if body:
                        fields = set(re.findall(r"pub (\w+)\s*:", body))
                        want = [m["name"] for m in rec.members if m["name"] and not m["bitfield"] and m["name"] in fields]
                        missing = (["size"] if not a or "size" not in a else []) + (["align"] if not a or "align" not in a else []) + [f for f in want if not a or f not in a.get("offsets", {})]
                        if missing:
                            ck.violation("C06-incomplete-target:" + ("msvc" if "msvc" in t else t), "for this target a record is emitted without some of its layout assertions",
                                         {"target": t, "record": rec.text(), "missing": missing, "header": hdr[:2500]})
                    if not a:
                        continue
                    ty = "%s %s" % (rec.kind, rec.name)
                    if "size" in a:
                        lines.append('_Static_assert(sizeof(%s) == %d, "size %s");' % (ty, a["size"], rec.name))
                    if "align" in a:
                        lines.append('_Static_assert(_Alignof(%s) == %d, "align %s");' % (ty, a["align"], rec.name))
                    for f, n in a["offsets"].items():
                        lines.append('_Static_assert(offsetof(%s, %s) == %d, "offset %s.%s");' % (ty, f, n, rec.name, f))
                cf = os.path.join(tmp, "sa_%d_%s.c" % (b, t.split("-")[0]))
                open(cf, "w").write("\n".join(lines) + "\n")
                rc, o, e = sh2(["clang", "--target=" + t, "-ffreestanding", "-std=gnu11", "-fsyntax-only", cf], cwd=tmp, timeout=120)
                ck.nontrivial.add(("target", b, t))
                if rc != 0:
                    bad = re.findall(r'static_assert failed.*?"([^"]+)"', e)[:5]
                    ck.violation("C06-number-target:" + t, "an asserted number differs from what the C compiler computes for this target", {"target": t, "failed": bad, "header": hdr[:2500]})
        ck.notes["targets"] = TARGETS
        inst_family(ck, bindgen, tmp, quick)
    finally:
        shutil.rmtree(tmp, ignore_errors=True)


def balanced_generic(text, i):
    """text[i] == '<' -> index just after the matching '>'"""
    depth, j = 0, i
    while j < len(text):
        if text[j] == "<":
            depth += 1
        elif text[j] == ">" and text[j - 1] != "-":
            depth -= 1
            if depth == 0:
                return j + 1
        j += 1
    return j


def norm_ty(t):
    # (the formatter breaks long generic argument lists over several lines and adds a trailing comma)
    t = re.sub(r"\s+", "", t)
    return re.sub(r",(?=>)|,$", "", t)


def inst_family(ck, bindgen, tmp, quick):
    """template instantiations with concrete arguments: every one that appears in the bindings must get a size and an alignment assertion
    (both assertion forms, namespaces on and off), stating clang's numbers"""
    r = ck.rng
    ARGS = ["int", "char", "double", "n1::E", "n2::E", "S", "Box<int>", "Box<n2::E>", "long long", "short", "n1::S1", "Pair<char, double>", "bool", "void *"]
    for b in range(4 if quick else 40):
        uses = []      # (member name, C++ type, how)
        k = 0
        body = ""
        byvalue = set()
        fixed_members = []
        if b == 0:
            # instantiations whose names differ only by the namespace of an argument or of the template itself
            fixed_members = [("Box<n1::E>", "value"), ("Box<n2::E>", "value"), ("n1::Wrap<int>", "value"), ("n2::Wrap<int>", "value"), ("Pair<n1::E, n2::E>", "value"),
                             ("Pair<n2::E, n1::E>", "value"), ("Box<int>", "value"), ("Box<int>", "array"), ("Box<n1::S1>", "value"), ("Box<n2::S1>", "value"),
                             # an argument the user blocklists below (seed C06-4): the instantiation is still emitted, so it still needs its assertions
                             ("Box<S>", "value"), ("Pair<S, int>", "value")]
        for ty, how in fixed_members:
            body += "  %s m%d%s;\n" % (ty, k, "[3]" if how == "array" else "")
            uses.append(("m%d" % k, ty, how))
            byvalue.add(norm_ty(ty))
            k += 1
        for _ in range(r.choice([3, 5, 8]) if b else 0):
            tmpl = r.choice(["Box", "Box", "Pair", "n1::Wrap", "n2::Wrap"])
            if tmpl == "Pair":
                ty = "Pair<%s, %s>" % (r.choice(ARGS[:6] + ARGS[8:10]), r.choice(ARGS))
            else:
                ty = "%s<%s>" % (tmpl, r.choice(ARGS))
            how = r.choice(["value", "value", "value", "array", "pointer"])
            body += "  %s m%d%s;\n" % (ty + (" *" if how == "pointer" else ""), k, "[3]" if how == "array" else "")
            uses.append(("m%d" % k, ty, how))
            if how in ("value", "array"):
                byvalue.add(norm_ty(ty))
            k += 1
        extra = []
        for _ in range(r.choice([0, 1, 2])):
            ty = "Box<%s>" % r.choice(["float", "unsigned char", "unsigned short"])
            kind = r.choice(["typedef", "extern", "param"])
            extra.append((ty, kind))
        hdr = ("template<class T> struct Box { T v; long w; };\ntemplate<class A, class B> struct Pair { A a; B b; };\n"
               "namespace n1 { enum E { A1, A2 }; struct S1 { char c[3]; }; template<class T> struct Wrap { T t; char tail; }; }\nnamespace n2 { enum class E : char { B1 }; struct S1 { long l; }; template<class T> struct Wrap { T t; short tail; }; }\nstruct S { double d; char c; };\n"
               "struct H {\n%s};\n" % body)
        for q, (ty, kind) in enumerate(extra):
            hdr += {"typedef": "typedef %s TD%d;\n", "extern": "extern %s gv%d;\n", "param": "void fp%d_(%s *p);\n"}[kind] % ((ty, q) if kind != "param" else (q, ty))
        p = os.path.join(tmp, "inst%d.hpp" % b)
        open(p, "w").write(hdr)
        # clang's numbers for every by-value member
        probe = '#include <cstdio>\n#include <cstddef>\n#include "%s"\nint main() {\n' % os.path.basename(p)
        for m, ty, how in uses:
            if how == "value":
                probe += '  printf("%s %%zu %%zu\\n", sizeof(%s), alignof(%s));\n' % (m, ty, ty)
        probe += "  return 0; }\n"
        open(os.path.join(tmp, "instp%d.cpp" % b), "w").write(probe)
        rc, o, e = sh2(["clang++", "-std=c++17", "-w", "-o", "instp%d" % b, "instp%d.cpp" % b], cwd=tmp, timeout=120)
        if rc != 0:
            raise TieBroken("c06-inst-generator", e[-800:] + hdr)
        rc, o, e = sh2([os.path.join(tmp, "instp%d" % b)], timeout=60)
        cnum = {l.split()[0]: (int(l.split()[1]), int(l.split()[2])) for l in o.splitlines()}
        S_RS = "#[repr(C)] #[derive(Debug, Copy, Clone)] pub struct S { pub d: f64, pub c: ::std::os::raw::c_char }"
        for flags in ([], ["--enable-cxx-namespaces"], ["--rust-target", "1.73"], ["--rust-target", "1.73", "--enable-cxx-namespaces"],
                      ["--blocklist-type", "^S$", "--raw-line", S_RS], ["--blocklist-type", "^S$", "--raw-line", S_RS, "--rust-target", "1.73"]):
            rc, out, err = sh2([bindgen, p] + flags + ["--", "-x", "c++", "-std=c++17"], timeout=120)
            ck.evaluations += 1
            ck.nontrivial.add(("inst", hdr, tuple(flags)))
            data = {"header": hdr, "flags": flags}
            if rc != 0:
                ck.violation("C06-inst:bindgen-failed", "bindgen fails on a header of template instantiations", dict(data, stderr=err[-400:]))
                continue
            # asserted types: the argument of size_of / align_of next to a "template specialization" message
            asserted = {}
            for m in re.finditer(r"(size_of|align_of)\s*::\s*<", out):
                i = m.end() - 1
                j = balanced_generic(out, i)
                ty = norm_ty(out[i + 1:j - 1])
                ctxt = out[max(0, m.start() - 500):j + 900]
                n = re.search(r"\(\s*\)\s*-\s*(\d+)usize|\(\s*\)\s*,\s*(\d+)usize", out[j:j + 160])
                if "template specialization" in ctxt and n:
                    asserted.setdefault(ty, {})[m.group(1)] = int(n.group(1) or n.group(2))
            # the Rust type of every member of H
            hb = e2e.struct_body(out, "H")
            ftypes = {}
            for m in re.finditer(r"pub (m\d+)\s*:\s*", hb):
                j = m.end()
                depth = 0
                k2 = j
                while k2 < len(hb) and not (hb[k2] == "," and depth == 0):
                    depth += hb[k2] in "<[("
                    depth -= hb[k2] in ">])" and hb[k2 - 1] != "-"
                    k2 += 1
                ftypes[m.group(1)] = norm_ty(hb[j:k2])
            for mname, ty, how in uses:
                rt = ftypes.get(mname)
                if rt is None:
                    ck.violation("C06-inst:member-missing", "a member of instantiation type is missing from the struct", dict(data, member=mname))
                    continue
                if how == "array":
                    rt = re.sub(r"^\[(.*);\d+usize\]$", r"\1", rt)
                if how == "pointer":
                    rt = re.sub(r"^\*(?:mut|const)", "", rt)
                a = asserted.get(rt)
                if not a or "size_of" not in a or "align_of" not in a:
                    if how == "pointer" and norm_ty(ty) not in byvalue:
                        ck.violation("C06-inst-unasserted:not-held-by-value", "a template instantiation with concrete arguments appears in the bindings (behind a pointer) without size / alignment assertion",
                                     dict(data, member=mname, cxx_type=ty, rust_type=rt))
                    else:
                        ck.violation("C06-inst-unasserted", "a template instantiation with concrete arguments that a struct holds by value gets no size / alignment assertion",
                                     dict(data, member=mname, cxx_type=ty, rust_type=rt, asserted_types=sorted(asserted)))
                    continue
                if how == "value" and (a["size_of"], a["align_of"]) != cnum[mname]:
                    ck.violation("C06-inst-number", "the asserted size / alignment of a template instantiation differs from the C++ compiler's", dict(data, member=mname, cxx_type=ty, asserted=a, clang=cnum[mname]))
            for q, (ty, kind) in enumerate(extra):
                if norm_ty(ty) in byvalue:
                    continue
                rt = [t for t in asserted if t.replace("root::", "").startswith("Box<")]
                # these instantiations are named by a typedef / extern variable / parameter only
                args_rs = {"float": "f32", "unsigned char": "c_uchar", "unsigned short": "c_ushort"}[ty[4:-1]]
                if not any(args_rs in t for t in rt):
                    ck.violation("C06-inst-unasserted:not-held-by-value", "a template instantiation with concrete arguments appears in the bindings (typedef target / variable / parameter) without size / alignment assertion",
                                 dict(data, cxx_type=ty, used_as=kind))
            # rustc must accept the assertions
            if not flags or flags == ["--enable-cxx-namespaces"] or flags[-1] == S_RS:
                src = os.path.join(tmp, "instb%d.rs" % b)
                open(src, "w").write("#![allow(warnings)]\n" + out + "\nfn main() {}\n")
                rc, o, e = sh2(["rustc", "--edition", "2021", "-A", "warnings", "--emit", "metadata", "-o", os.path.join(tmp, "instb%d.rmeta" % b), src], cwd=tmp, timeout=300)
                if rc != 0:
                    ck.violation("C06-inst:assertions-rejected", "rustc rejects the bindings with their instantiation assertions", dict(data, rustc=e2e.rustc_errors(e, 2)))


def replay(ck, path):
    print(open(path).read())
    run(ck)
