# C16 — static-function wrappers compile and behave like the wrapped functions.
#  theorems: C16/Properties.v (declarator printer vs an independent C declarator reader; argument forwarding)
#  tie: the wrapper text bindgen really writes vs C16/Model.wrapper (token lists compared inside Coq)
#  oracle: clang compiles the wrapper file against the header; nm shows exactly one wrapper per bound static
#          function; a C test calls f(args) and f__extern(args) and compares results and side effects
import os, re, sys, json, tempfile, shutil
from concurrent.futures import ThreadPoolExecutor
import vlib
from vlib import sh, sh2, ROOT, REPO, COQ, CACHE, TieBroken

PRELUDE = """typedef int myint;
typedef unsigned long ulong_t;
struct P { int x; double y; };
union U { int i; float f; };
enum E { EA, EB = 5 };
typedef struct { int x; double y; } anon_t;
typedef enum { AA, AB = 3 } aenum_t;
typedef int (*fp2_t)(int, char);
typedef struct P named_t;
typedef union U uni_t;
"""
BASES = [["int"], ["unsigned", "int"], ["char"], ["signed", "char"], ["unsigned", "char"], ["short"], ["long"], ["unsigned", "long", "long"], ["float"], ["double"],
         ["myint"], ["ulong_t"], ["enum", "E"], ["struct", "P"], ["bool"], ["anon_t"], ["aenum_t"], ["named_t"], ["union", "U"], ["uni_t"]]
NUMERIC = {"int", "unsigned int", "char", "signed char", "unsigned char", "short", "long", "unsigned long long", "float", "double", "myint", "ulong_t", "enum E", "bool", "aenum_t"}
STRUCTY = {"struct P", "anon_t", "named_t"}
UNIONY = {"union U", "uni_t"}


def B(words, const=False):
    return ("base", list(words), const)


def c_decl(t, name):
    """correct C spelling of `t name` (inside-out), independent of bindgen"""
    def go(t, inner):
        k = t[0]
        if k == "base":
            return (("const " if t[2] else "") + " ".join(t[1]) + (" " + inner if inner else "")).strip()
        if k == "ptr":
            s = "*" + ("const " if t[1] else "") + inner
            if t[2][0] in ("arr", "fun"):
                s = "(" + s + ")"
            return go(t[2], s)
        if k == "arr":
            return go(t[1], "%s[%d]" % (inner, t[2]))
        if k == "fun":
            ps = ", ".join(c_decl(pt, pn or "") for pn, pt in t[2]) or "void"
            return go(t[1], "%s(%s)" % (inner, ps))
    return go(t, name)


def expr_of(t, name):
    """a numeric expression reading parameter `name` of type t (for the checksum body), or None"""
    k = t[0]
    if k == "base":
        w = " ".join(t[1])
        if w in NUMERIC:
            return "(long)(%s)" % name
        if w in STRUCTY:
            return "((long)%s.x + (long)%s.y)" % (name, name)
        if w in UNIONY:
            return "(long)%s.i" % name
        if w == "fp2_t":
            return "(long)%s(3, 'b')" % name
        return None
    if k == "ptr":
        p = t[2]
        if p[0] == "base" and " ".join(p[1]) in NUMERIC:
            return "(long)(*%s)" % name
        if p[0] == "base" and " ".join(p[1]) in STRUCTY:
            return "(long)(%s->x)" % name
        if p[0] == "base" and " ".join(p[1]) in UNIONY:
            return "(long)(%s->i)" % name
        if p[0] == "arr":
            return "(long)((*%s)[1])" % name
        if p[0] == "fun":
            return "(long)%s(3, 'b')" % name if len(p[2]) == 2 else "(long)%s()" % name
        if p[0] == "ptr":
            return "(long)(**%s)" % name
        return "(long)(%s != 0)" % name
    if k == "arr":
        return "(long)(%s[0] + %s[%d])" % (name, name, t[2] - 1)
    return None


def arg_of(t, idx):
    """(setup lines, argument expression) for calling with a value of type t"""
    k = t[0]
    v = 3 + 2 * idx
    if k == "base":
        w = " ".join(t[1])
        if w in NUMERIC:
            return [], "(%s)%d" % (w, v % 100 if w != "bool" else 1)
        if w in STRUCTY:
            return ["%s sp%d = { %d, %d.5 };" % (w, idx, v, v)], "sp%d" % idx
        if w in UNIONY:
            return ["%s su%d = { %d };" % (w, idx, v)], "su%d" % idx
        if w == "fp2_t":
            return [], "cb2"
    if k == "ptr":
        p = t[2]
        if p[0] == "base" and " ".join(p[1]) in NUMERIC:
            w = " ".join(p[1])
            return ["%s pv%d = (%s)%d;" % (w, idx, w, (v + 1) % 100 if w != "bool" else 1)], "&pv%d" % idx
        if p[0] == "base" and " ".join(p[1]) in STRUCTY:
            return ["%s pp%d = { %d, 1.0 };" % (" ".join(p[1]), idx, v)], "&pp%d" % idx
        if p[0] == "base" and " ".join(p[1]) in UNIONY:
            return ["%s pu%d = { %d };" % (" ".join(p[1]), idx, v)], "&pu%d" % idx
        if p[0] == "arr":
            return ["int pa%d[%d] = { %s };" % (idx, p[2], ", ".join(str(v + j) for j in range(p[2])))], "&pa%d" % idx
        if p[0] == "fun":
            return [], ("cb2" if len(p[2]) == 2 else "cb0")
        if p[0] == "ptr":
            return ["int q%d = %d; int *qq%d = &q%d;" % (idx, v, idx, idx)], "&qq%d" % idx
    if k == "arr":
        return ["int ar%d[%d] = { %s };" % (idx, t[2], ", ".join(str(v + j) for j in range(t[2])))], "ar%d" % idx
    return None, None


FP2 = ("ptr", False, ("fun", B(["int"]), [(None, B(["int"])), (None, B(["char"]))]))
FP0 = ("ptr", False, ("fun", B(["int"]), []))


def gen_param(r, hazard):
    x = r.random()
    if x < 0.45:
        w = r.choice(BASES)
        if r.random() < 0.06:
            w = ["fp2_t"]
        return B(w, r.random() < 0.1 and " ".join(w) not in STRUCTY | UNIONY and w != ["fp2_t"])
    if x < 0.70:
        w = r.choice([b for b in BASES if " ".join(b) in NUMERIC] + [["struct", "P"], ["anon_t"], ["named_t"], ["union", "U"], ["uni_t"]])
        return ("ptr", r.random() < 0.15, B(w, r.random() < 0.4))
    if x < 0.80:
        return ("arr", B(["int"]), r.choice([2, 3, 8]))
    if x < 0.90:
        return r.choice([FP2, FP0])
    if x < 0.94:
        return ("ptr", False, ("ptr", False, B(["int"])))
    if hazard:
        return ("ptr", False, ("arr", B(["int"]), 3))
    return B(["int"])


def gen_fn(r, i, hazard):
    n = r.choice([0, 1, 1, 2, 2, 3, 4, 6])
    params = []
    for j in range(n):
        t = gen_param(r, hazard)
        params.append(("u%d" % j if r.random() < 0.1 else "p%d" % j, t))
    y = r.random()
    if y < 0.5:
        ret = B(["int"])
    elif y < 0.65:
        ret = B(["void"])
    elif y < 0.75:
        ret = B(["double"])
    elif y < 0.78:
        ret = B(["struct", "P"])
    elif y < 0.80:
        ret = B(r.choice([["union", "U"], ["uni_t"]]))
    elif y < 0.85:
        ret = B(r.choice([["anon_t"], ["aenum_t"], ["fp2_t"], ["named_t"], ["myint"]]))
    elif y < 0.93:
        ret = ("ptr", False, B(["int"], True))
    elif hazard:
        ret = FP2   # function returning a pointer to function
    else:
        ret = B(["long"])
    return {"name": "sf%d" % i, "ret": ret, "params": params, "static_inline": r.random() < 0.6}


def fn_text(f):
    named = [(pn or "u%d" % j, pt) for j, (pn, pt) in enumerate(f["params"])]
    sig = c_decl(("fun", f["ret"], [(pn, pt) for pn, pt in named]), f["name"])
    terms = [e for e in (expr_of(pt, pn) for pn, pt in named) if e]
    total = " + ".join(terms) if terms else "7"
    r = f["ret"]
    if r[0] == "base" and r[1] == ["void"]:
        body = "side_effect += %s;" % total
    elif r[0] == "base" and " ".join(r[1]) in STRUCTY:
        body = "%s res = { (int)(%s), 0.5 }; return res;" % (" ".join(r[1]), total)
    elif r[0] == "base" and " ".join(r[1]) in UNIONY:
        body = "%s res = { (int)(%s) }; return res;" % (" ".join(r[1]), total)
    elif r[0] == "base" and r[1] == ["fp2_t"]:
        body = "side_effect += %s; return cb2;" % total
    elif r[0] == "ptr" and r[2][0] == "base":
        body = "static int cell; cell = (int)(%s); return &cell;" % total
    elif r[0] == "ptr":
        body = "side_effect += %s; return cb2;" % total
    else:
        body = "return (%s)(%s);" % (" ".join(r[1]), total)
    return "%s %s { %s }" % ("static inline" if f["static_inline"] else "static", sig, body)


def call_test(f, suffix):
    """C statements comparing f(args) with f<suffix>(args)"""
    setup, args = [], []
    for j, (pn, pt) in enumerate(f["params"]):
        s, a = arg_of(pt, j)
        if a is None:
            return None
        setup += s
        args.append(a)
    a = ", ".join(args)
    r = f["ret"]
    nm, w = f["name"], f["name"] + suffix
    if r[0] == "base" and r[1] == ["void"]:
        cmp_ = "side_effect = 0; %s(%s); long s1 = side_effect; side_effect = 0; %s(%s); long s2 = side_effect; ok = (s1 == s2);" % (nm, a, w, a)
    elif r[0] == "base" and " ".join(r[1]) in STRUCTY:
        cmp_ = "%s r1 = %s(%s); %s r2 = %s(%s); ok = (r1.x == r2.x && r1.y == r2.y);" % (" ".join(r[1]), nm, a, " ".join(r[1]), w, a)
    elif r[0] == "base" and " ".join(r[1]) in UNIONY:
        cmp_ = "%s r1 = %s(%s); %s r2 = %s(%s); ok = (r1.i == r2.i);" % (" ".join(r[1]), nm, a, " ".join(r[1]), w, a)
    elif r[0] == "ptr" and r[2][0] == "base":
        cmp_ = "int r1 = *%s(%s); int r2 = *%s(%s); ok = (r1 == r2);" % (nm, a, w, a)
    elif r[0] == "ptr" or (r[0] == "base" and r[1] == ["fp2_t"]):
        # the returned function is a static of the header: each translation unit has its own copy, compare what it computes
        cmp_ = "ok = (%s(%s)(3, 'b') == %s(%s)(3, 'b'));" % (nm, a, w, a)
    else:
        cmp_ = "ok = (%s(%s) == %s(%s));" % (nm, a, w, a)
    return "{ int ok; %s %s if (!ok) { printf(\"MISMATCH %s\\n\"); bad++; } else printf(\"SAME %s\\n\"); }" % (" ".join(setup), cmp_, nm, nm)


def is_hazard(t):
    if t[0] == "ptr" and t[2][0] == "arr":
        return True
    if t[0] == "ptr":
        return is_hazard(t[2])
    if t[0] == "arr":
        return is_hazard(t[1])
    if t[0] == "fun":
        return (t[1][0] == "ptr" and t[1][2][0] == "fun") or is_hazard(t[1]) or any(is_hazard(p) for _, p in t[2])
    return False


def coq_ty(t):
    k = t[0]
    L = lambda xs: "[" + "; ".join(xs) + "]"
    if k == "base":
        return "(CBase %s %s)" % (L('"%s"' % w for w in t[1]), "true" if t[2] else "false")
    if k == "ptr":
        # bindgen's IR marks the pointee of a const POINTER as const as well (Type::is_const of the pointee is how it
        # later chooses `*const T`), so the printer sees `T *const p` as `const T *const p`: mirrored here
        inner = t[2]
        if t[1] and inner[0] == "base":
            inner = ("base", inner[1], True)
        return "(CPtr %s %s)" % ("true" if t[1] else "false", coq_ty(inner))
    if k == "arr":
        return "(CArr %s %d)" % (coq_ty(t[1]), t[2])
    return "(CFun false %s %s)" % (coq_ty(t[1]), L("(%s, %s)" % ('Some "%s"' % pn if pn else "None", coq_ty(pt)) for pn, pt in t[2]))


def c_tokens(text):
    return re.findall(r"[A-Za-z_][A-Za-z_0-9]*|\d+|\.\.\.|[*()\[\],;{}]", text)


def run(ck):
    quick = ck.tier == "quick"
    ck.coverage["rule"] = ("generated headers of 1..30 static / static inline functions over scalars, typedefs, enums, const-qualified pointers, arrays, function pointers, double pointers, structs by value, "
                           "unnamed parameters, void returns (hazard shapes pointer-to-array and function-returning-function-pointer in separate headers); each wrapped by the real bindgen, the wrapper file "
                           "compiled by clang, symbols listed by nm, and f(args) vs f__extern(args) compared by a C test; non-trivial = a function with at least one parameter; distinct by function text")
    ck.trusted += ["clang 14 + nm as oracles for 'compiles' and 'defines exactly one external wrapper'",
                   "the C test compares return values and a global side-effect counter for fixed argument values",
                   "modelled, not verified: the type kinds the printer rejects (Cannot serialize ...) and the variadic va_list re-insertion path are exercised only end to end"]
    vlib.coq_check_properties(ck, "theories/C16/Properties.v")
    vlib.coq_check_properties(ck, "theories/C16/NamesProperties.v")
    ok, out = vlib.coq_make(["theories/C16/Exec.vo"])
    if not ok:
        raise TieBroken("coq-build:C16", out)
    bindgen = vlib.build_cli()
    r = ck.rng
    tmp = tempfile.mkdtemp(prefix="c16_", dir=CACHE)
    try:
        cases = []
        for hi in range(12 if quick else 200):
            hazard = hi % 6 == 5
            fns = [gen_fn(r, i, hazard) for i in range(r.choice([1, 3, 8, 15, 30]))]
            if hazard:
                # the shapes the printer is known to get wrong, always present in a hazard header
                fns.append({"name": "hz_pa%d" % hi, "ret": B(["int"]), "params": [("pa", ("ptr", False, ("arr", B(["int"]), 3)))], "static_inline": True})
                if hi % 12 == 11:
                    fns.append({"name": "hz_ff%d" % hi, "ret": FP2, "params": [("k", B(["int"]))], "static_inline": True})
            if r.random() < 0.3:
                fns.append({"name": "vf%d" % hi, "variadic": True})
            cases.append((hi, hazard, fns))

        def one(c):
            hi, hazard, fns = c
            d = os.path.join(tmp, "h%d" % hi)
            os.makedirs(d)
            suffix = "__extern" if hi % 3 else "_w%d" % hi
            h = os.path.join(d, "s.h")
            body = "#include <stdbool.h>\n" + PRELUDE + "extern long side_effect;\nstatic int cb2(int a, char b) { return a + b; }\nstatic int cb0(void) { return 11; }\n"
            for f in fns:
                if f.get("variadic"):
                    body += "static inline int %s(int n, ...) { return n; }\n" % f["name"]
                else:
                    body += fn_text(f) + "\n"
            open(h, "w").write(body)
            fl = ["--experimental", "--wrap-static-fns", "--wrap-static-fns-path", os.path.join(d, "wrap"), "--no-layout-tests"]
            if suffix != "__extern":
                fl += ["--wrap-static-fns-suffix", suffix]
            rc, out, err = sh2([bindgen, h] + fl, timeout=120, cwd=d)
            wrap = open(os.path.join(d, "wrap.c")).read() if os.path.exists(os.path.join(d, "wrap.c")) else None
            res = {"rc": rc, "bindings": out, "err": err, "wrap": wrap, "suffix": suffix, "dir": d, "header": body}
            if rc == 0 and wrap is not None:
                rc2, o2, e2 = sh2(["clang", "-std=gnu11", "-c", "-Wno-duplicate-decl-specifier", "-o", os.path.join(d, "wrap.o"), os.path.join(d, "wrap.c")], cwd=d, timeout=120)
                res["cc"] = (rc2, e2)
                if rc2 == 0:
                    rc3, o3, e3 = sh2(["nm", "--defined-only", "-g", os.path.join(d, "wrap.o")], timeout=60)
                    res["nm"] = sorted(l.split()[-1] for l in o3.splitlines() if " T " in l)
                    # behaviour: link wrap.o with a test that includes the header too
                    tests = [call_test(f, suffix) for f in fns if not f.get("variadic")]
                    protos = ""
                    for f in fns:
                        if not f.get("variadic"):
                            protos += c_decl(("fun", f["ret"], [(pn or "u%d" % j, pt) for j, (pn, pt) in enumerate(f["params"])]), f["name"] + suffix) + ";\n"
                    t = os.path.join(d, "t.c")
                    open(t, "w").write('#include <stdio.h>\n#include "s.h"\nlong side_effect;\n%s\nint main(void) { int bad = 0;\n%s\nreturn bad != 0; }\n' % (protos, "\n".join(x for x in tests if x)))
                    rc4, o4, e4 = sh2(["clang", "-std=gnu11", "-w", "-o", os.path.join(d, "t"), t, os.path.join(d, "wrap.o")], cwd=d, timeout=120)
                    if rc4 == 0:
                        rc5, o5, e5 = sh2([os.path.join(d, "t")], timeout=60)
                        res["run"] = (rc5, o5)
                    else:
                        res["run"] = (-1, e4[-600:])
            return c, res
        with ThreadPoolExecutor(max_workers=vlib.NCPU) as ex:
            results = list(ex.map(one, cases))
        tie_terms, tie_meta = [], []
        for (hi, hazard, fns), res in results:
            real = [f for f in fns if not f.get("variadic")]
            for f in real:
                ck.evaluations += 1
                if f["params"]:
                    ck.nontrivial.add(fn_text(f))
            hz = hazard and any(is_hazard(("fun", f["ret"], f["params"])) for f in real)
            data = {"header": res["header"], "wrapper_file": res["wrap"], "suffix": res["suffix"]}
            if res["rc"] != 0 or res["wrap"] is None:
                ck.violation("C16-bindgen-failed", "bindgen fails on a header of static functions", dict(data, stderr=res["err"][-600:]))
                continue
            suf = res["suffix"]
            bound = set(re.findall(r'#\[link_name = "(\w+)"\]\s*pub fn (\w+)', res["bindings"]))
            bound_names = {b for a, b in bound}
            for f in fns:
                if f.get("variadic") and (f["name"] in bound_names or re.search(r"pub fn %s\b" % f["name"], res["bindings"])):
                    ck.violation("C16-variadic-bound", "a variadic static function, which cannot be wrapped, still got a binding", data)
            for ln, fnn in bound:
                if ln != fnn + suf:
                    ck.violation("C16-link-name", "binding does not point at <name><suffix>", dict(data, link_name=ln, fn=fnn))
            missing = [f["name"] for f in real if f["name"] not in bound_names]
            if missing:
                ck.violation("C16-binding-missing", "a wrappable static function got no binding", dict(data, missing=missing))
            rc2, e2 = res.get("cc", (1, ""))
            if rc2 != 0:
                cls = "C16-wrapper-does-not-compile" + (":pointer-to-array-or-fn-returning-fnptr" if hz else "")
                ck.violation(cls, "the emitted wrapper source does not compile against the header", dict(data, clang=e2[-800:]))
                continue
            want = sorted([f["name"] + suf for f in real] + ["cb0" + suf, "cb2" + suf])
            if res.get("nm") != want:
                ck.violation("C16-wrapper-symbols", "the wrapper object does not define exactly one external wrapper per bound function", dict(data, defined=res.get("nm"), expected=want))
            rc5, o5 = res.get("run", (-1, ""))
            if rc5 != 0:
                bad = re.findall(r"MISMATCH (\w+)", o5)
                cls = "C16-behaviour" + (":pointer-to-array-or-fn-returning-fnptr" if hz else "")
                ck.violation(cls, "calling the wrapper does not behave like calling the static function", dict(data, mismatching=bad, detail=o5[-400:]))
            # tie: wrapper lines vs the model
            for f in real:
                m = re.search(r"^.*\b%s\(.*\{ .*%s\(.*$" % (re.escape(f["name"] + suf), re.escape(f["name"])), res["wrap"], re.M)
                if not m:
                    continue
                toks = c_tokens(m.group(0))
                # a const pointee reached through a ResolvedTypeRef prints `const const` (harmless duplicate qualifier):
                # the model has no type-reference indirection, so duplicates are collapsed before comparing
                toks = [t for i, t in enumerate(toks) if not (t == "const" and i > 0 and toks[i - 1] == "const")]
                tie_terms.append("(%s, %s, %s, [%s], [%s])" % ('"%s"' % f["name"], '"%s"' % suf, coq_ty(f["ret"]),
                                                                "; ".join("(%s, %s)" % ('Some "%s"' % pn if pn else "None", coq_ty(pt)) for pn, pt in f["params"]),
                                                                "; ".join('"%s"' % t for t in toks)))
                tie_meta.append((f, m.group(0)))
        tie(ck, tie_terms, tie_meta)
        vlib.build_harness()
        scenarios(ck, bindgen, tmp)
        if results:
            (hi, hz, fns), res = results[0]
            ck.sample({"header": res["header"][-500:], "wrapper_file": (res["wrap"] or "")[:500]})
    finally:
        shutil.rmtree(tmp, ignore_errors=True)


# ---------------------------------------------------------------- configurations the property quantifies over
SC_PRE = """#include <stdarg.h>
struct P { int x; double y; };
union U { int i; float f; };
enum E { EA, EB = 5 };
struct outer { struct inner { int q; } in; int z; };
extern long side_effect;
"""
# name -> (definition, prototype of the wrapper (%s = its name), C statements setting `ok` (W = the wrapper))
SC_FNS = {
    "sc_plain": ("static inline int sc_plain(int a) { return a + 1; }", "int %s(int);", "ok = (sc_plain(5) == W(5));"),
    "sc_struct": ("static int sc_struct(struct P p, union U u, enum E e) { return p.x + u.i + (int)e; }", "int %s(struct P, union U, enum E);",
                  "{ struct P p = { 3, 1.5 }; union U u = { 9 }; ok = (sc_struct(p, u, EB) == W(p, u, EB)); }"),
    "sc_void": ("static inline void sc_void(int a) { side_effect += a; }", "void %s(int);",
                "{ side_effect = 0; sc_void(7); long s1 = side_effect; side_effect = 0; W(7); ok = (s1 == side_effect); }"),
    "sc_nested": ("static inline int sc_nested(struct inner *p) { return p->q; }", "int %s(struct inner *);", "{ struct inner i = { 41 }; ok = (sc_nested(&i) == W(&i)); }"),
    "sc_md": ("static inline int sc_md(int m[2][3]) { return m[1][2]; }", "int %s(int (*)[3]);", "{ int m[2][3] = { {1, 2, 3}, {4, 5, 6} }; ok = (sc_md(m) == W(m)); }"),
    # (without a ParseCallbacks::wrap_as_variadic_fn answer the wrapper takes the va_list itself)
    "sc_va": ("static inline int sc_va(int n, va_list ap) { return n + va_arg(ap, int); }", "int %s(int, va_list);", "ok = (direct_va(3, 4) == wrapped_va(3, 4));"),
    "match": ("static inline int match(int a) { return a + 2; }", "int %s(int);", "ok = (match(5) == W(5));"),
    # unnamed parameters next to parameters that are literally called arg_<n> (the wrapper invents names for the unnamed ones)
    "sc_un1": ("static int sc_un1(int arg_1, int, int arg_3);\nstatic int sc_un1(int a, int b, int c) { return a + 2 * b + 3 * c; }", "int %s(int, int, int);", "ok = (sc_un1(1, 2, 3) == W(1, 2, 3));"),
    "sc_un2": ("static int sc_un2(int, int arg_2, int);\nstatic int sc_un2(int a, int b, int c) { return 5 * a + 2 * b + c; }", "int %s(int, int, int);", "ok = (sc_un2(1, 2, 3) == W(1, 2, 3));"),
    "sc_un3": ("static int sc_un3(int, int arg_0);\nstatic int sc_un3(int a, int b) { return 7 * a + b; }", "int %s(int, int);", "ok = (sc_un3(1, 2) == W(1, 2));"),
    "sc_h": ("static int sc_h(int sc_h) { return sc_h + 1; }", "int %s(int);", "ok = (sc_h(4) == W(4));"),
    "sc_b": ("static _Bool sc_b(_Bool b, _Bool *pb) { return !b && *pb; }", "_Bool %s(_Bool, _Bool *);", "{ _Bool t = 1; ok = (sc_b(0, &t) == W(0, &t)); }"),
    "sc_vol": ("static int sc_vol(volatile int *p, const volatile char *q) { return *p + *q; }", "int %s(volatile int *, const volatile char *);", "{ int x = 3; char y = 4; ok = (sc_vol(&x, &y) == W(&x, &y)); }"),
    "sc_i128": ("static __int128 sc_i128(__int128 a) { return a + 1; }", "__int128 %s(__int128);", "ok = (sc_i128(41) == W(41));"),
    "sc_tv": ("typedef void v_t;\nstatic v_t sc_tv(int a) { side_effect += 2 * a; }", "void %s(int);", "{ side_effect = 0; sc_tv(7); long s1 = side_effect; side_effect = 0; W(7); ok = (s1 == side_effect); }"),
    "sc_ptrs": ("static inline long sc_ptrs(const int *a, char *const b, int (*cb)(int, char)) { return *a + *b + cb(1, 'a'); }", "long %s(const int *, char *const, int (*)(int, char));",
                "{ int a = 4; char b = 'q'; ok = (sc_ptrs(&a, &b, cbx) == W(&a, &b, cbx)); }"),
}
SCENARIOS = [
    # (name, functions, extra flags, clang args, mode, suffix)
    ("cli-path", ["sc_plain", "sc_struct", "sc_void", "sc_ptrs"], [], [], "cli", None),
    ("custom-suffix-and-path", ["sc_plain", "sc_struct", "sc_void"], [], [], "cli", "_wrapped9"),
    ("enable-cxx-namespaces", ["sc_plain", "sc_struct", "sc_void"], ["--enable-cxx-namespaces"], [], "cli", None),
    ("prefix-link-name", ["sc_plain", "sc_void"], ["--prefix-link-name", "pre_"], [], "cli", None),
    ("c-naming", ["sc_struct"], ["--c-naming"], [], "cli", None),
    ("nested-struct-parameter", ["sc_nested"], [], [], "cli", None),
    ("multi-dimensional-array-parameter", ["sc_md"], [], [], "cli", None),
    ("va_list-parameter", ["sc_va", "sc_plain"], [], [], "cli", None),
    ("rust-keyword-name", ["match", "sc_plain"], [], [], "cli", None),
    ("cxx-mode", ["sc_plain", "sc_void"], [], ["-x", "c++"], "cli", None),
    ("unnamed-parameter-names", ["sc_un1", "sc_un2", "sc_plain"], [], [], "cli", None),
    ("unnamed-parameter-clash", ["sc_un3", "sc_plain"], [], [], "cli", None),
    ("parameter-named-like-function", ["sc_h", "sc_plain"], [], [], "cli", None),
    ("bool-without-stdbool", ["sc_b", "sc_plain"], [], [], "cli", None),
    ("volatile-pointees", ["sc_vol", "sc_plain"], [], [], "cli", None),
    ("int128", ["sc_i128", "sc_plain"], [], [], "cli", None),
    ("typedef-void-return", ["sc_tv", "sc_plain"], [], [], "cli", None),
    ("merge-extern-blocks-sort", ["sc_plain", "sc_struct", "sc_void"], ["--merge-extern-blocks", "--sort-semantically"], [], "cli", None),
    ("allowlist", ["sc_plain", "sc_void"], ["--allowlist-function", "sc_plain"], [], "cli", None),
    ("builder-path", ["sc_plain", "sc_struct", "sc_void"], [], [], "path", None),
    ("several-headers", ["sc_plain", "sc_void", "sc_struct"], [], [], "multi", "_m"),
    ("in-memory-contents", ["sc_plain", "sc_struct", "sc_void"], [], [], "contents", None),
    ("in-memory-contents-twice", ["sc_plain", "sc_void", "sc_struct"], [], [], "contents2", None),
]


def scenarios(ck, bindgen, tmp):
    exe = os.path.join(vlib.TARGET, "debug", "bgv")

    def one(sc):
        name, fns, flags, cargs, mode, suffix = sc
        d = os.path.join(tmp, "sc_" + name)
        os.makedirs(os.path.join(d, "out dir"))
        suf = suffix or "__extern"
        cpp = "c++" in cargs
        pre = SC_PRE + "static int cbx(int a, char b) { return a * 2 + b; }\n"
        split = mode in ("multi", "contents2")
        first = fns[:1] if split else fns
        h1 = os.path.join(d, "one.h")
        if mode == "contents2":
            # two in-memory headers: each brings the common declarations under an include guard (bindgen passes the second one with
            # -include, so it is read BEFORE the first)
            pre = "#ifndef SC_PRE_H\n#define SC_PRE_H\n" + pre + "#endif\n"
        open(h1, "w").write(("#pragma once\n" if mode == "multi" else "") + pre + "".join(SC_FNS[f][0] + "\n" for f in first))
        hs = [h1]
        if split:
            h2 = os.path.join(d, "two.h")
            # (two in-memory headers: the second one relies on the first having been seen, as two real headers given in order may)
            open(h2, "w").write(('#include "one.h"\n' if mode == "multi" else pre) + "".join(SC_FNS[f][0] + "\n" for f in fns[1:]))
            hs.append(h2)
        wpath = os.path.join(d, "out dir", "wr") if suffix else os.path.join(d, "wr")
        if mode == "cli":
            fl = ["--experimental", "--wrap-static-fns", "--wrap-static-fns-path", wpath, "--no-layout-tests"] + (["--wrap-static-fns-suffix", suffix] if suffix else []) + flags
            rc, out, err = sh2([bindgen, h1] + fl + (["--"] + cargs + ["-I", d] if cargs else ["--", "-I", d]), timeout=120, cwd=d)
        else:
            rc, o, err = sh2([exe, "wrap", {"path": "path", "multi": "multi", "contents": "contents", "contents2": "contents"}[mode], vlib.enc(wpath), vlib.enc(suffix) if suffix else "-"] + [vlib.enc(h) for h in hs],
                             timeout=120, cwd=d)
            out = vlib.dec(o.strip()[3:]) if o.startswith("OK ") else ""
            rc = 0 if o.startswith("OK ") else 1
            err = err + o[:300]
        res = {"rc": rc, "bindings": out, "err": err, "dir": d, "headers": {os.path.basename(h): open(h).read() for h in hs}, "flags": flags + cargs, "mode": mode, "suffix": suf}
        wf = wpath + (".cpp" if cpp else ".c")
        res["wrap"] = open(wf).read() if os.path.exists(wf) else None
        res["other_wrap_files"] = sorted(x for x in os.listdir(os.path.dirname(wpath)) if x.startswith("wr"))
        if rc != 0:
            return sc, res
        if res["wrap"] is not None:
            std = ["-x", "c++", "-std=c++17"] if cpp else ["-std=gnu11"]
            rc2, o2, e2 = sh2(["clang"] + std + ["-c", "-I", d, "-Wno-duplicate-decl-specifier", "-o", os.path.join(d, "wr.o"), wf], cwd=d, timeout=120)
            res["cc"] = (rc2, e2)
            if rc2 == 0:
                rc3, o3, e3 = sh2(["nm", "--defined-only", "-g", os.path.join(d, "wr.o")], timeout=60)
                res["nm"] = sorted(l.split()[-1] for l in o3.splitlines() if " T " in l)
                # behaviour of every function whose wrapper symbol exists
                tests, protos = [], ""
                for f in fns:
                    w = f + suf
                    if w in res["nm"]:
                        protos += (SC_FNS[f][1] % w) + "\n"
                        tests.append("{ int ok; %s if (!ok) { printf(\"MISMATCH %s\\n\"); bad++; } else printf(\"SAME %s\\n\"); }" % (re.sub(r"\bW\(", w + "(", SC_FNS[f][2]), f, f))
                t = os.path.join(d, "t.c")
                helper = "static int direct_va(int n, ...) { va_list ap; va_start(ap, n); int r = sc_va(n, ap); va_end(ap); return r; }\n" if "sc_va" in fns else ""
                if "sc_va" + suf in res["nm"]:
                    protos += "static int wrapped_va(int n, ...) { va_list ap; va_start(ap, n); int r = sc_va%s(n, ap); va_end(ap); return r; }\n" % suf
                open(t, "w").write('#include <stdio.h>\n#include "%s"\nlong side_effect;\n%s%s\nint main(void) { int bad = 0;\n%s\nreturn bad != 0; }\n' % (os.path.basename(hs[-1]) if mode != "contents2" else 'one.h"\n#include "two.h', helper, protos, "\n".join(tests)))
                if not cpp:
                    rc4, o4, e4 = sh2(["clang", "-std=gnu11", "-w", "-I", d, "-o", os.path.join(d, "t"), t, os.path.join(d, "wr.o")], cwd=d, timeout=120)
                    if rc4 == 0:
                        rc5, o5, e5 = sh2([os.path.join(d, "t")], timeout=60)
                        res["run"] = (rc5, o5)
                    else:
                        res["run"] = (-1, e4[-600:])
        return sc, res
    with ThreadPoolExecutor(max_workers=vlib.NCPU) as ex:
        results = list(ex.map(one, SCENARIOS))
    for (name, fns, flags, cargs, mode, suffix), res in results:
        ck.evaluations += 1
        ck.nontrivial.add("scenario:" + name)
        data = {"scenario": name, "headers": res["headers"], "flags": res["flags"], "mode": res["mode"], "wrapper_file": res["wrap"], "suffix": res["suffix"]}
        if res["rc"] != 0:
            ck.violation("C16-scenario:bindgen-failed:" + name, "bindgen fails on a header of static functions", dict(data, stderr=res["err"][-600:]))
            continue
        suf = res["suffix"]
        # every binding of a static function and the symbol it points at
        bound = {}
        for m in re.finditer(r'(?:#\[link_name = "((?:\\u\{1\})?)([^"]+)"\]\s*)?pub fn (\w+)\s*\(', res["bindings"]):
            bound[m.group(3)] = m.group(2) or m.group(3)
        mine = {f: bound.get(f) or bound.get(f + "_") for f in fns if (f in bound or f + "_" in bound)}
        if name == "allowlist" and "sc_void" in mine:
            ck.violation("C16-scenario:not-allowlisted-bound:" + name, "a static function outside the allowlist got a binding", dict(data, bound=mine))
        if not mine:
            continue
        if res["wrap"] is None:
            ck.violation("C16-scenario:no-wrapper-file:" + name, "static functions got bindings (%s) but no wrapper source was written" % sorted(mine.items()), dict(data, files=res["other_wrap_files"], bindings=res["bindings"][-1500:]))
            continue
        rc2, e2 = res.get("cc", (1, ""))
        if rc2 != 0:
            ck.violation("C16-scenario:wrapper-does-not-compile:" + name, "the emitted wrapper source does not compile against the header", dict(data, clang=e2[-800:]))
            continue
        dangling = {f: l for f, l in mine.items() if l not in res["nm"]}
        if dangling:
            ck.violation("C16-scenario:dangling-binding:" + name, "bindings of static functions point at symbols the wrapper file does not define: %s" % sorted(dangling.items()), dict(data, defined=res["nm"], bindings=res["bindings"][-1500:]))
        wrong = {f: l for f, l in mine.items() if l in res["nm"] and l != f + suf}
        if wrong:
            ck.violation("C16-scenario:link-name:" + name, "binding does not point at <name><suffix>", dict(data, wrong=wrong))
        extra = [x for x in res["nm"] if x not in [f + suf for f in fns] + ["cbx" + suf]]
        dup = [x for x in set(res["nm"]) if res["nm"].count(x) > 1]
        if extra or dup:
            ck.violation("C16-scenario:wrapper-symbols:" + name, "the wrapper object defines other external symbols than one wrapper per bound function", dict(data, defined=res["nm"]))
        if "run" in res:
            rc5, o5 = res["run"]
            if rc5 != 0:
                ck.violation("C16-scenario:behaviour:" + name, "calling the wrapper does not behave like calling the static function", dict(data, detail=o5[-500:]))
    ck.notes["scenarios"] = len(results)


def tie(ck, terms, meta):
    if not terms:
        return
    shard = 200
    bodies = []
    for a in range(0, len(terms), shard):
        bodies.append("""From Coq Require Import NArith List Bool String.
From BG Require Import C16.Model C16.Exec.
Import ListNotations. Open Scope string_scope.
Definition cases := [
%s
].
Eval vm_compute in map (fun c => match c with (n, s, r, ps, toks) =>
   if list_eq_dec string_dec (map tok_text (wrapper n s r ps)) toks then 1%%N else 0%%N end) cases.
""" % ";\n".join(terms[a:a + shard]))
    res = []
    for rc, out in vlib.coq_eval_many("c16_tie", bodies):
        if rc != 0:
            raise TieBroken("coq-eval:C16", out[-2500:])
        ls = vlib.parse_coq_nlists(out)
        if not ls or ls[0] is None:
            raise TieBroken("coq-eval:C16-parse", out[-1500:])
        res += ls[0]
    bad = [meta[i] for i, v in enumerate(res) if v != 1]
    ck.coverage["traces_validated_against_impl"] = len(res) - len(bad)
    ck.obligation("correspondence:wrapper text==C16/Model.wrapper", not bad, "%d wrappers, %d mismatches" % (len(res), len(bad)))
    if bad:
        ck.broken("correspondence", "serialize.rs vs C16/Model.wrapper", json.dumps([{"function": fn_text(f), "emitted": line} for f, line in bad[:6]], indent=1))


def replay(ck, path):
    print(open(path).read())
    run(ck)
