# C08 — traits are derived exactly when the rules allow; hand-written impls act like derives.
#  theorems: C08/Properties.v (soundness of the derive list w.r.t. what members implement, supertrait closure, float / union /
#            packed / blocklist / option rules, completeness on plain data, manual Default)
#  ties: generated C type trees -> (a) the analysis answers of the real run (IR dump) == C08/Model.can computed from the generator's
#        own description of the tree, (b) the derive list and manual impls in the emitted text == C08/Model.derives_of / manual,
#        both inside Coq; (c) rustc must accept the bindings; trait-bound probes; (d) Default::default() is all-zero, Debug does not panic
import os, re, sys, json, tempfile, shutil, itertools
from concurrent.futures import ThreadPoolExecutor
import vlib, irdump, e2e
from vlib import sh, sh2, ROOT, REPO, COQ, CACHE, TieBroken

TRAITS = ["Copy", "Clone", "Debug", "Default", "Hash", "PartialOrd", "Ord", "PartialEq", "Eq"]
ATRAITS = [("cannot_copy", "ACopy"), ("cannot_debug", "ADebug"), ("cannot_default", "ADefault"), ("cannot_hash", "AHash"), ("cannot_partialeq", "APartialEq")]
FN13 = "int (*%s)(int, int, int, int, int, int, int, int, int, int, int, int, int)"


class Node:
    """a member type; coq() renders C08/Model.ty"""
    def __init__(self, kind, **kw):
        self.kind = kind
        self.__dict__.update(kw)

    def coq(self, env):
        k = self.kind
        if k in ("TInt", "TFloat", "TEnum", "TPtr"):
            return k
        if k == "TFnPtr":
            return "(TFnPtr %s)" % ("true" if self.ok else "false")
        if k == "TArr":
            return "(TArr %s %d)" % (self.elem.coq(env), self.n)
        return env[self.rec].coq(env)

    def cdecl(self, name):
        k = self.kind
        if k in ("TInt", "TFloat", "TEnum", "TPtr"):
            return "%s %s" % (self.spell, name)
        if k == "TFnPtr":
            return ("int (*%s)(int, char)" % name) if self.ok else (FN13 % name)
        if k == "TArr":
            return self.elem.cdecl("%s[%s]" % (name, self.n if self.n else ""))
        return "%s %s %s" % (self.rkind, self.rec, name)

    def alignment(self, env):
        k = self.kind
        if k == "TArr":
            return self.elem.alignment(env)
        if k == "TRec":
            return env[self.rec].align
        if k == "TFnPtr" or k == "TPtr":
            return 8
        return self.al


class Rec:
    def __init__(self, name, union=False):
        self.name, self.union = name, union
        self.fields = []     # (member name, Node, bitfield width or None)
        self.packed = False
        self.aligned = None
        self.big_unit = False
        self.excl = set()
        self.blocklisted = False
        self.opaque = False
        self.align = 1

    def text(self):
        body, pre = "", ""
        for n, t, w in self.fields:
            td = getattr(t, "td", None)
            if td and not w:
                # the member's type through a typedef (a chain of two for every other one): transparent for every rule
                pre += "typedef %s;\n" % t.cdecl(td + "_0")
                pre += "typedef %s_0 %s;\n" % (td, td)
                body += "  %s %s;\n" % (td, n)
            else:
                body += "  %s%s;\n" % (t.cdecl(n), " : %d" % w if w else "")
        attrs = []
        if self.packed:
            attrs.append("packed")
        if self.aligned:
            attrs.append("aligned(%d)" % self.aligned)
        return pre + "%s %s {\n%s}%s;\n" % ("union" if self.union else "struct", self.name, body, (" __attribute__((%s))" % ", ".join(attrs)) if attrs else "")

    def compute_align(self, env):
        a = 1 if self.packed else max([t.alignment(env) for _, t, _ in self.fields] + [1])
        if self.aligned:
            a = max(a, self.aligned)
        self.align = a

    def coq(self, env):
        B = lambda b: "true" if b else "false"
        excl = "[" + "; ".join(sorted(self.excl)) + "]"
        return ("(TRec {| r_union := %s; r_fwd := false; r_packed := %s; r_allowlisted := %s; r_opaque := %s; r_big_unit := %s; r_align := %d; r_excl := %s |} [%s])"
                % (B(self.union), B(self.packed), B(not self.blocklisted), B(self.opaque), B(self.big_unit), self.align, excl, "; ".join(t.coq(env) for _, t, _ in self.fields)))


def base_of(t):
    while t.kind == "TArr":
        t = t.elem
    return t


INTS = [("int", 4), ("char", 1), ("unsigned long", 8), ("short", 2), ("unsigned char", 1), ("long long", 8)]


def gen_graph(r, n):
    env, order = {}, []
    for i in range(n):
        rec = Rec("T%d" % i, union=r.random() < 0.15)
        shape = r.choice(["plain", "plain", "mixed", "mixed", "mixed", "float", "ptr", "bigarr", "fn13", "fam", "bigunit", "nested", "nested"])
        nf = r.choice([1, 2, 3, 4])
        for k in range(nf):
            x = r.random()
            nm = "m%d" % k
            if shape == "plain":
                s, a = r.choice(INTS)
                t = Node("TInt", spell=s, al=a)
            elif shape == "float" and x < 0.6:
                s, a = r.choice([("float", 4), ("double", 8)])
                t = Node("TFloat", spell=s, al=a)
            elif shape == "ptr" and x < 0.6:
                t = Node("TPtr", spell=r.choice(["int *", "void *", "struct Fwd *", "const char *"]), al=8)
            elif shape == "fn13" and x < 0.6:
                t = Node("TFnPtr", ok=False)
            elif shape == "nested" and order and x < 0.7:
                o = r.choice(order)
                t = Node("TRec", rec=o, rkind="union" if env[o].union else "struct")
            else:
                y = r.random()
                if y < 0.45:
                    s, a = r.choice(INTS)
                    t = Node("TInt", spell=s, al=a)
                elif y < 0.55:
                    s, a = r.choice([("float", 4), ("double", 8)])
                    t = Node("TFloat", spell=s, al=a)
                elif y < 0.63:
                    t = Node("TEnum", spell="enum E", al=4)
                elif y < 0.72:
                    t = Node("TPtr", spell=r.choice(["int *", "void *", "struct Fwd *"]), al=8)
                elif y < 0.8:
                    t = Node("TFnPtr", ok=True)
                elif order:
                    o = r.choice(order)
                    t = Node("TRec", rec=o, rkind="union" if env[o].union else "struct")
                else:
                    t = Node("TInt", spell="int", al=4)
            # arrays around the element
            if r.random() < (0.6 if shape == "bigarr" else 0.2):
                dims = [r.choice([33, 40, 64]) if (shape == "bigarr" and r.random() < 0.7) else r.choice([1, 2, 3, 32])]
                if r.random() < 0.25:
                    dims.append(r.choice([2, 3]))
                for d in reversed(dims):
                    t = Node("TArr", elem=t, n=d)
            if r.random() < 0.2 and not (t.kind == "TArr" and base_of(t).kind == "TFnPtr") and not (t.kind == "TArr" and t.n == 0):
                t.td = "td_%d_%d" % (i, k)
            rec.fields.append((nm, t, None))
        if shape == "bigunit" and not rec.union:
            rec.fields = [("b%d" % k, Node("TInt", spell="unsigned long long", al=8), 64) for k in range(5)] + rec.fields[:1]
            rec.big_unit = True
        elif r.random() < 0.12 and not rec.union:
            # a small run of bit-fields in front (their types are traced as fields)
            rec.fields = [("b0", Node("TInt", spell="unsigned", al=4), 3), ("b1", Node("TInt", spell="unsigned", al=4), 9)] + rec.fields
        if shape == "fam" and not rec.union:
            s, a = r.choice(INTS)
            rec.fields.append(("fam", Node("TArr", elem=Node("TInt", spell=s, al=a), n=0), None))
        x = r.random()
        has_fam = any(t.kind == "TArr" and t.n == 0 for _, t, _ in rec.fields) or any(t.kind == "TRec" and env[t.rec].has_fam for _, t, _ in rec.fields)
        rec.has_fam = has_fam
        inner_aligned = any(b.kind == "TRec" and env[b.rec].has_aligned for b in (base_of(t) for _, t, _ in rec.fields))
        if x < 0.15 and not rec.big_unit and not inner_aligned:
            # (a packed record holding a repr(align) record is rejected by rustc whatever is derived: C02 known finding E0588)
            rec.packed = True
        elif x < 0.25:
            rec.aligned = r.choice([16, 64])
        rec.has_aligned = bool(rec.aligned) or inner_aligned
        # a struct holding a flexible-array struct must hold it last (GNU extension); keep clang quiet by not nesting those in arrays/middle
        env[rec.name] = rec
        rec.compute_align(env)
        order.append(rec.name)
    return env, order


def header(env, order):
    return "enum E { EA, EB = 9 };\nstruct Fwd;\n" + "".join(env[n].text() for n in order)


def valid_c(env, order):
    """reject graphs clang would warn/err about: flexible-array structs nested anywhere but as a last struct member, unions with them"""
    for n in order:
        rec = env[n]
        for idx, (_, t, _) in enumerate(rec.fields):
            base, inarr = t, False
            while base.kind == "TArr":
                if base.n != 0:
                    inarr = True
                base = base.elem
            if base.kind == "TRec" and env[base.rec].has_fam and (inarr or rec.union or idx != len(rec.fields) - 1):
                return False
            if t.kind == "TArr" and t.n == 0 and (rec.union or idx != len(rec.fields) - 1 or len(rec.fields) == 1):
                return False
    return True


def leaf_checks(env, rec, expr, skip=frozenset()):
    """Rust boolean expressions, one per scalar leaf of the record (through nested records and arrays), true iff that leaf is zero"""
    out = []
    if rec.opaque or rec.blocklisted or rec.packed or rec.name in skip:
        return out      # (members of a packed record cannot be borrowed; the text check of write_bytes covers it)

    def leaf(t, e):
        k = t.kind
        if k == "TArr":
            if t.n == 0:
                return
            for i in sorted({0, t.n - 1}):
                leaf(t.elem, "%s[%d]" % (e, i))
        elif k == "TRec":
            sub = env[t.rec]
            if sub.union or sub.opaque or sub.blocklisted or sub.packed or sub.name in skip:
                return
            out.extend(leaf_checks(env, sub, e, skip))
        elif k == "TInt":
            out.append("(%s as i128) == 0" % e)
        elif k == "TEnum":
            out.append("(%s as i128) == 0" % e)
        elif k == "TFloat":
            out.append("%s.to_bits() == 0" % e)
        elif k == "TPtr":
            out.append("%s.is_null()" % e)
        elif k == "TFnPtr":
            out.append("%s.is_none()" % e)
    if rec.union:
        return out
    for name, t, w in rec.fields:
        if w:
            continue      # bit-fields live in the allocation unit
        leaf(t, "%s.%s" % (expr, name))
    return out


def option_sets(r, quick):
    names = ["copy", "debug", "default", "hash", "partialord", "ord", "partialeq", "eq", "impl_debug"]
    full = {k: True for k in names}
    sets = [dict(copy=True, debug=True, default=False, hash=False, partialord=False, ord=False, partialeq=False, eq=False, impl_debug=False), full,
            dict(full, copy=False), dict(full, debug=False, impl_debug=False), dict(full, default=False), dict(full, hash=False, eq=False, ord=False)]
    for _ in range(2 if quick else 40):
        o = {k: r.random() < 0.6 for k in names}
        # the CLI cannot express ord without partialord or eq without partialeq (the builder couples them)
        if o["ord"]:
            o["partialord"] = True
        if o["eq"]:
            o["partialeq"] = True
        sets.append(o)
    return sets


def flags_of(o):
    fl = []
    if not o["copy"]:
        fl.append("--no-derive-copy")
    if not o["debug"]:
        fl.append("--no-derive-debug")
    for k in ("default", "hash", "partialord", "ord", "partialeq", "eq"):
        if o[k]:
            fl.append("--with-derive-" + k)
    if o["impl_debug"]:
        fl.append("--impl-debug")
    return fl


def closed(o):
    return (not o["ord"] or (o["eq"] and o["partialord"])) and (not o["partialord"] or o["partialeq"]) and (not o["eq"] or o["partialeq"])


def coq_opts(o):
    B = lambda b: "true" if b else "false"
    return ("{| o_untagged := true; o_copy := %s; o_debug := %s; o_default := %s; o_hash := %s; o_partialord := %s; o_ord := %s; o_partialeq := %s; o_eq := %s; o_impl_debug := %s |}"
            % tuple(B(o[k]) for k in ("copy", "debug", "default", "hash", "partialord", "ord", "partialeq", "eq", "impl_debug")))


def emitted(bindings, name):
    """(set of derived traits, set of hand-written impls) of a type in the emitted text"""
    m = re.search(r"((?:#\[[^\]]*\]\s*)*)pub (?:struct|union) %s\b" % name, bindings)
    if not m:
        return None, None
    ds = set()
    for d in re.findall(r"derive\(([^)]*)\)", m.group(1)):
        ds |= {x.strip() for x in d.split(",") if x.strip()}
    manual = set()
    for tr, pat in (("Default", r"impl Default for %s\b"), ("Debug", r"impl (?:::)?(?:std|core)::fmt::Debug for %s\b"), ("PartialEq", r"impl (?:::)?(?:std|core)::cmp::PartialEq for %s\b"), ("Clone", r"impl Clone for %s\b")):
        if re.search(pat % name, bindings):
            manual.add(tr)
    return ds, manual


def run(ck):
    quick = ck.tier == "quick"
    ck.coverage["rule"] = ("generated C type trees (integers, floats, enums, pointers incl. to forward declarations, function pointers with <= 12 and 13 arguments, arrays of 1..64 elements and two "
                           "dimensions, flexible arrays, bit-field runs incl. an allocation unit above 32 bytes, nested structs and unions by value, packed, aligned(16|64)) x option sets over the 9 derive "
                           "flags and impl-debug x per-name exclusions (--no-copy/debug/default/hash/partialeq), one blocklisted or opaque member type: analysis answers (dump) and emitted derive lists / "
                           "manual impls vs the model; rustc compiles the bindings and trait-bound probes for every derived or hand-written trait; Default::default() bytes and Debug formatting executed; "
                           "non-trivial = a record with at least one non-integer or nested member; distinct by (header, flags)")
    ck.trusted += ["the generator's own description of each type tree (props/c08.py Node/Rec.coq) is the independent specification input; alignments are recomputed by clang",
                   "hook H1 (analysis result sets)", "rustc as the judge of trait presence and of `derive` requirements; text inspection of derive attributes",
                   "modelled, not verified: C++ (destructors, vtables, templates, references), vectors, Objective-C, annotations; hand-written PartialEq cannot arise for supported Rust targets "
                   "(arrays of any length derive PartialEq), so its behaviour is not exercised"]
    vlib.coq_check_properties(ck, "theories/C08/Properties.v")
    ok, out = vlib.coq_make(["theories/C08/Model.vo"])
    if not ok:
        raise TieBroken("coq-build:C08", out)
    bindgen = vlib.build_cli()
    r = ck.rng
    tmp = tempfile.mkdtemp(prefix="c08_", dir=CACHE)
    try:
        jobs = []
        gi = 0
        osets = option_sets(r, quick)
        while gi < (10 if quick else 150):
            env, order = gen_graph(r, r.choice([3, 5, 7]))
            if not valid_c(env, order):
                continue
            for oi, o in enumerate(osets if not quick else [osets[0], osets[1], osets[2], r.choice(osets[3:])]):
                env2 = env
                extra, mods = [], {}
                # per-name exclusions / blocklist / opaque on one record for some runs
                x = r.random()
                victim = r.choice(order)
                if oi and x < 0.25:
                    tr = r.choice(["copy", "debug", "default", "hash", "partialeq"])
                    extra = ["--no-%s" % tr, "^%s$" % victim]
                    mods = {"excl": (victim, {"copy": "ACopy", "debug": "ADebug", "default": "ADefault", "hash": "AHash", "partialeq": "APartialEq"}[tr])}
                elif oi and x < 0.35:
                    extra = ["--blocklist-type", "^%s$" % victim]
                    mods = {"block": victim}
                elif oi and x < 0.45:
                    extra = ["--opaque-type", "^%s$" % victim]
                    mods = {"opaque": victim}
                jobs.append((gi, oi, env, order, o, extra, mods))
            gi += 1

        def one(j):
            gi, oi, env, order, o, extra, mods = j
            d = os.path.join(tmp, "g%d_%d" % (gi, oi))
            os.makedirs(d)
            hdr = header(env, order)
            h = os.path.join(d, "t.h")
            open(h, "w").write(hdr)
            # clang: accepted? alignments
            probe = '#include <stdio.h>\n#include "t.h"\nint main(void){' + "".join('printf("%s %%zu %%zu\\n", sizeof(%s %s), _Alignof(%s %s));' % (n, "union" if env[n].union else "struct", n, "union" if env[n].union else "struct", n) for n in order) + "return 0;}\n"
            open(os.path.join(d, "p.c"), "w").write(probe)
            rc0, _, e0 = sh2(["clang", "-std=gnu11", "-w", "-o", "p", "p.c"], cwd=d, timeout=60)
            al = {}
            if rc0 == 0:
                _, o0, _ = sh2(["./p"], cwd=d, timeout=30)
                for line in o0.splitlines():
                    p = line.split()
                    al[p[0]] = (int(p[1]), int(p[2]))
            fl = flags_of(o) + extra + ["--no-layout-tests"]
            rc, out, err, dump = irdump.run_dump(bindgen, h, fl, [], cwd=d, log=os.path.join(d, "log"))
            res = {"hdr": hdr, "flags": fl, "clang_rc": rc0, "clang_err": e0[-300:], "align": al, "rc": rc, "out": out, "err": err, "dump": dump, "dir": d}
            return j, res
        with ThreadPoolExecutor(max_workers=vlib.NCPU) as ex:
            results = list(ex.map(one, jobs))
        bodies, metas = [], []
        for (gi, oi, env, order, o, extra, mods), res in results:
            ck.evaluations += 1
            if res["clang_rc"] != 0:
                raise TieBroken("c08-generator", "clang rejects a generated header: %s\n%s" % (res["clang_err"], res["hdr"]))
            base = {"header": res["hdr"], "flags": res["flags"]}
            if res["rc"] != 0 or res["dump"] is None or not res["dump"].complete:
                ck.violation("C08-bindgen-failed", "bindgen fails on a generated type tree", dict(base, stderr=res["err"][-500:]))
                continue
            if any(t.kind != "TInt" for n in order for _, t, _ in env[n].fields):
                ck.nontrivial.add(res["hdr"] + " ".join(res["flags"]))
            # fresh per-run copies of the mutable record attributes
            saved = {n: (env[n].excl, env[n].blocklisted, env[n].opaque, env[n].align) for n in order}
            for n in order:
                env[n].excl, env[n].blocklisted, env[n].opaque = set(), False, False
                if n in res["align"]:
                    env[n].align = res["align"][n][1]
            if "excl" in mods:
                env[mods["excl"][0]].excl = {mods["excl"][1]}
            if "block" in mods:
                env[mods["block"]].blocklisted = True
            if "opaque" in mods:
                env[mods["opaque"]].opaque = True
            d = res["dump"]
            byname = {}
            for i, it in d.items.items():
                if it["ikind"] == "type" and it.get("tkind") == "Comp" and it.get("name") in env:
                    byname[it["name"]] = i
            rows = []
            obs = {}
            for n in order:
                if n not in byname:
                    continue
                i = byname[n]
                ans = []
                for resname, a in ATRAITS:
                    if not d.ran.get(resname):
                        ans.append(9)
                        continue
                    v = d.res.get(resname, {}).get(i)
                    ans.append(0 if v is None else (1 if v == "Manually" else 2 if v == "No" else 3))   # 3: in the cannot-set, tier unknown
                ds, man = emitted(res["out"], n)
                if env[n].blocklisted:
                    # an unreferenced blocklisted type is never visited by the analysis; what matters (and is compared) is the
                    # answer of the types that contain it — C10 compares the blocklisted item itself when it is reached
                    ans = [9] * len(ATRAITS)
                obs[n] = (ans, ds, man)
                if env[n].blocklisted:
                    dcode, mcode = [], []
                    ds, man = set(), set()
                def has_opaque(nm, seen=()):
                    rc_ = env[nm]
                    return rc_.opaque or any(base_of(t).kind == "TRec" and base_of(t).rec not in seen and has_opaque(base_of(t).rec, seen + (nm,)) for _, t, _ in rc_.fields)
                if has_opaque(n) and ds is not None:
                    # whether an opaque composite "has a float" depends on the order in which the HasFloat analysis meets its members
                    # (its fields are not traced): Eq / Ord on an opaque blob — and on what contains it — are harmless either way and are not compared
                    ds = ds - {"Eq", "Ord"}
                dmask = [1 if t in (ds or set()) else 0 for t in TRAITS]
                mmask = [1 if t in (man or set()) else 0 for t in TRAITS]
                rows.append("(%s, %s, %s, %s, %s)" % (env[n].coq(env), vlib.coq_nlist(ans), vlib.coq_nlist(dmask), vlib.coq_nlist(mmask), "true" if (ds is not None and not env[n].blocklisted) else "false"))
            body = """From Coq Require Import NArith List Bool.
From BG Require Import C08.Model.
Import ListNotations. Open Scope N_scope.
Definition o : opts := %s.
Definition traits := [Copy; Clone; Debug; Default; Hash; PartialOrd; Ord; PartialEq; Eq].
Definition atraits := [ACopy; ADebug; ADefault; AHash; APartialEq].
Definition rows : list (ty * list N * list N * list N * bool) := [%s].
Definition ans_ok (m impl : N) : bool := (impl =? 9) || (if impl =? 3 then negb (m =? 0) else m =? impl).
Fixpoint opaque_rec (t : ty) : bool :=
  match t with
  | TRec i fs => r_opaque i || (fix any (l : list ty) : bool := match l with [] => false | f :: l' => opaque_rec f || any l' end) fs
  | TArr e _ => opaque_rec e
  | _ => false
  end.
Definition mask (l : list trait) : list N := map (fun t => if mem t l then 1 else 0) traits.
Definition dmask (t : ty) : list N :=
  map (fun tr => if mem tr (derives_of o t) && negb (opaque_rec t && match tr with Eq | Ord => true | _ => false end) then 1 else 0) traits.
Fixpoint leqb (a b : list N) : bool := match a, b with [], [] => true | x :: a', y :: b' => (x =? y) && leqb a' b' | _, _ => false end.
Definition row_bad (r : ty * list N * list N * list N * bool) : list N :=
  match r with (t, ans, ds, man, emitted) =>
    [ if forallb (fun p => ans_ok (can o (fst p) t) (snd p)) (combine atraits ans) then 0 else 1;
      if negb emitted || leqb (dmask t) ds then 0 else 1;
      if negb emitted || leqb (mask (manual o t)) man then 0 else 1 ] end.
Eval vm_compute in map row_bad rows.
Eval vm_compute in map (fun r => match r with (t, _, _, _, _) => map (fun a => can o a t) atraits ++ dmask t ++ mask (manual o t) end) rows.
""" % (coq_opts(o), ";\n ".join(rows))
            bodies.append(body)
            metas.append((gi, oi, [n for n in order if n in byname], obs, base, o, dict(mods), {n: env[n].text() for n in order}))
            for n in order:
                env[n].excl, env[n].blocklisted, env[n].opaque, env[n].align = saved[n]
        evs = vlib.coq_eval_many("c08_rows", bodies, timeout=900)
        nrows = 0
        bad_corr = 0
        for (gi, oi, names, obs, base, o, mods, texts), (rc, out) in zip(metas, evs):
            ls = vlib.parse_coq_nlists(out) if rc == 0 else []
            if rc != 0 or len(ls) != 2 or ls[0] is None or ls[1] is None:
                raise TieBroken("coq-eval:C08", out[-2500:])
            for n, bad, model in zip(names, ls[0], ls[1]):
                nrows += 1
                ans, ds, man = obs[n]
                mcan, mder, mman = model[:5], [t for t, b in zip(TRAITS, model[5:14]) if b], [t for t, b in zip(TRAITS, model[14:23]) if b]
                info = dict(base, type=texts[n], mods=mods, analysis={"impl": dict(zip([a for _, a in ATRAITS], ans)), "model": dict(zip([a for _, a in ATRAITS], mcan))},
                            derives={"impl": sorted(ds or []), "model": mder}, manual={"impl": sorted(man or []), "model": mman})
                if bad[0]:
                    bad_corr += 1
                    ck.broken("correspondence", "CannotDerive answers vs C08/Model.can", json.dumps(info)[:3000])
                if bad[1]:
                    extra_, missing = sorted(set(ds or []) - set(mder)), sorted(set(mder) - set(ds or []))
                    cls = "C08-derive-unexpected:%s" % "+".join(extra_) if extra_ else "C08-derive-withheld:%s" % "+".join(missing)
                    ck.violation(cls, "the derive list differs from the documented rules (extra %s, missing %s)" % (extra_, missing), info)
                if bad[2]:
                    ck.violation("C08-manual-impl-set", "the set of hand-written impls differs from the rules", info)
        ck.obligation("correspondence:CannotDerive answers==C08/Model.can on IR dumps", bad_corr == 0, "%d runs, %d records" % (len(metas), nrows))
        ck.coverage["traces_validated_against_impl"] = len(metas)
        # ---- rustc: the bindings compile; every derived / hand-written trait is really implemented; behaviour of manual impls
        def compile_one(x):
            (gi, oi, env, order, o, extra, mods), res = x
            if res["rc"] != 0:
                return x, None
            d = res["dir"]
            out = res["out"]
            probes, runs = "", ""
            for n in order:
                ds, man = emitted(out, n)
                if ds is None:
                    continue
                for t in sorted(ds | man):
                    path = {"Debug": "::std::fmt::Debug", "Hash": "::std::hash::Hash"}.get(t, t)
                    probes += "    needs_%s::<%s>();\n" % (t.lower(), n)
                if "Default" in man:
                    # every member of the hand-written Default must be zero (padding after a move is not observable in Rust: the impl's
                    # write_bytes over the whole object is checked on the text)
                    checks = leaf_checks(env, env[n], "v", frozenset(v_ for k_, v_ in mods.items() if k_ in ("block", "opaque")))
                    runs += "    { let v: %s = Default::default(); let mut nz = 0usize; %s println!(\"default %s {}\", nz); %s }\n" % (
                        n, " ".join("if !(%s) { nz += 1; }" % c_ for c_ in checks), n, ("let s = format!(\"{:?}\", v); println!(\"debug %s {}\", s.len() > 0);" % n) if "Debug" in (ds | man) else "")
                if "Debug" in man and not env[n].union and not env[n].packed and not env[n].opaque and not env[n].blocklisted:
                    # a hand-written Debug must print every member that implements Debug the way a derive would: `name: {:?}`
                    # (function pointers beyond 12 arguments are printed as `FunctionPointer`: bindgen's rule predates their Debug impl)
                    fl = [f_ for f_, t_, w_ in env[n].fields if w_ is None and not (t_.kind == "TArr" and t_.n == 0) and not (base_of(t_).kind == "TFnPtr" and not base_of(t_).ok)]
                    body = "".join("if let Some(e) = Probe(&v.%s).dbg() { if !s.contains(&format!(\"%s: {}\", e)) { println!(\"debugfield %s %s {:?} {:?}\", s, e); } } " % (f_, f_, n, f_) for f_ in fl)
                    runs += "    { let v: %s = unsafe { ::std::mem::zeroed() }; let s = format!(\"{:?}\", v); %s}\n" % (n, body)
                if "Default" in man:
                    mm = re.search(r"impl Default for %s \{.*?\n\}" % n, out, re.S)
                    if not (mm and re.search(r"write_bytes\(\s*s\.as_mut_ptr\(\)\s*,\s*0\s*,\s*1\s*\)", mm.group(0))):
                        probes += "    compile_error!(\"hand-written Default of %s does not zero the whole object\");\n" % n
            user = ""
            if "block" in mods and mods["block"] in res["align"]:
                s, a = res["align"][mods["block"]]
                el = {1: "u8", 2: "u16", 4: "u32", 8: "u64", 16: "u128"}.get(a)
                if el and s % a == 0:
                    # alignment through the element type: a packed container may not hold a repr(align) type (E0588)
                    user = "#[repr(C)] pub struct %s(pub [%s; %d]);\n" % (mods["block"], el, s // a)
                else:
                    user = "#[repr(C, align(%d))] pub struct %s(pub [u8; %d]);\n" % (a, mods["block"], s)
            user += ("struct Probe<'a, T>(&'a T);\ntrait NoDbg { fn dbg(&self) -> Option<String> { None } }\nimpl<'a, T> NoDbg for Probe<'a, T> {}\n"
                     "impl<'a, T: ::std::fmt::Debug> Probe<'a, T> { fn dbg(&self) -> Option<String> { Some(format!(\"{:?}\", self.0)) } }\n")
            src = ("#![allow(warnings)]\n" + user + out + "\n" + "".join("fn needs_%s<T: %s>() {}\n" % (t.lower(), {"Debug": "::std::fmt::Debug", "Hash": "::std::hash::Hash"}.get(t, t)) for t in TRAITS)
                   + "fn main() {\n" + probes + runs + "}\n")
            open(os.path.join(d, "m.rs"), "w").write(src)
            rc, so, se = sh2(["rustc", "--edition", "2021", "-A", "warnings", "-o", "m", "m.rs"], cwd=d, timeout=300)
            if rc != 0:
                return x, ("compile", se)
            rc, so, se = sh2(["./m"], cwd=d, timeout=60)
            return x, ("run", rc, so, se)
        with ThreadPoolExecutor(max_workers=vlib.NCPU) as ex:
            comp = list(ex.map(compile_one, results))
        for ((gi, oi, env, order, o, extra, mods), res), c in comp:
            if c is None:
                continue
            ck.evaluations += 1
            base = {"header": res["hdr"], "flags": res["flags"]}
            if c[0] == "compile":
                errs = e2e.rustc_errors(c[1], 4)
                codes = re.findall(r"error\[(E\d+)\]", c[1])
                # classify by the documented hole, with one canonical code per hole (the first code rustc prints varies)
                m = re.search(r"`(T\d+)` doesn't implement `(?:std::fmt::)?(\w+)`|the trait bound `(T\d+): (?:std::\w+::)?(\w+)` is not satisfied|can't compare `(T\d+)`|cannot be applied to type `(T\d+)`|cannot move out of `self\.(\w+)`", c[1])
                culprit = m and next((g for g in m.groups() if g and g.startswith("T")), None)
                packed_culprit = bool(culprit and culprit in env and env[culprit].packed) or ("--no-derive-copy" in res["flags"] and any(env[n].packed for n in order))
                if "E0588" in codes or "E0587" in codes:
                    code, why = "E0588", "packed-contains-aligned"
                elif not closed(o) and re.search(r"can't compare|: Eq` is not satisfied", c[1]) and not packed_culprit:
                    code, why = "E0277", "supertrait-option-gap"
                elif re.search(r"__BindgenOpaqueArray\d*<[^>]*>[^\n]*(?:PartialOrd|Ord|can't compare)|can't compare `__BindgenOpaqueArray", c[1]):
                    code, why = "E0277", "opaque-blob-lacks-partialord"
                elif packed_culprit and any(x in codes for x in ("E0277", "E0369", "E0507", "E0599")):
                    code, why = "E0277", "packed-noncopy-member"
                elif o["impl_debug"] and re.search(r"cannot be formatted using `\{:\?\}`|required for `\[T\d+; \d+\]` to implement `Debug`", c[1]):
                    code, why = "E0277", "manual-debug-member-without-debug"
                elif "E0793" in codes and o["impl_debug"]:
                    code, why = "E0793", "manual-debug-on-packed"
                else:
                    code, why = (codes[0] if codes else "E?"), "other"
                ck.violation("C08-bindings-rejected:%s:%s" % (code, why), "rustc rejects the derives bindgen emitted", dict(base, rustc=errs, stderr=c[1][-900:]))
                continue
            _, rc, so, se = c
            if rc != 0:
                ck.violation("C08-manual-impl-panics", "executing default()/fmt() of the generated types fails", dict(base, exit=rc, stderr=se[-500:]))
                continue
            for line in so.splitlines():
                p = line.split()
                if p[0] == "default" and p[2] != "0":
                    ck.violation("C08-default-not-zero", "Default::default() of a generated type is not the all-zero object (%s non-zero bytes)" % p[2], dict(base, type=p[1]))
                if p[0] == "debugfield":
                    ck.violation("C08-manual-debug-differs", "the hand-written Debug prints member %s.%s differently from what a derive would print (`name: {:?}` of the member)" % (p[1], p[2]), dict(base, type=p[1], member=p[2], line=line[:400]))
                if p[0] == "debug" and p[2] != "true":
                    ck.violation("C08-debug-empty", "Debug formatting yields nothing", dict(base, type=p[1]))
        if results:
            (gi, oi, env, order, o, extra, mods), res = results[0]
            n = order[-1]
            ck.sample({"type": env[n].text(), "flags": res["flags"], "derives": sorted(emitted(res["out"], n)[0] or [])})
        # ---- option sets the CLI can express that are not closed under supertraits (documented hole)
        d = os.path.join(tmp, "sup")
        os.makedirs(d)
        open(os.path.join(d, "s.h"), "w").write("struct S { int a; };\n")
        for fl in (["--with-derive-ord"], ["--with-derive-partialord"]):
            rc, out, err = sh2([bindgen, os.path.join(d, "s.h"), "--no-layout-tests"] + fl, timeout=60)
            open(os.path.join(d, "s.rs"), "w").write("#![allow(warnings)]\n" + out + "\nfn main() {}\n")
            rc2, so, se = sh2(["rustc", "--edition", "2021", "--emit", "metadata", "-o", "s.rmeta", "s.rs"], cwd=d, timeout=120)
            ck.evaluations += 1
            if rc2 != 0:
                ck.violation("C08-bindings-rejected:E0277:supertrait-option-gap", "`%s` alone derives a trait whose supertrait is not derived: every struct is rejected by rustc (C08/Properties.v supertraits_open_refuted)" % fl[0],
                             {"header": "struct S { int a; };", "flags": fl, "rustc": e2e.rustc_errors(se, 2)})
        # ---- _Complex members: __BindgenComplex<T> derives PartialEq but not PartialOrd
        open(os.path.join(d, "c.h"), "w").write("struct C { double _Complex z; int a; };\ntypedef float _Complex cf;\nstruct D { cf w[2]; };\n")
        for fl in (["--with-derive-partialeq"], ["--with-derive-partialeq", "--with-derive-partialord"], ["--with-derive-partialeq", "--with-derive-eq", "--with-derive-hash", "--impl-debug", "--impl-partialeq"]):
            rc, out, err = sh2([bindgen, os.path.join(d, "c.h"), "--no-layout-tests"] + fl, timeout=60)
            open(os.path.join(d, "c.rs"), "w").write("#![allow(warnings)]\n" + out + "\nfn main() {}\n")
            rc2, so, se = sh2(["rustc", "--edition", "2021", "--emit", "metadata", "-o", "c.rmeta", "c.rs"], cwd=d, timeout=120)
            ck.evaluations += 1
            ck.nontrivial.add(("complex", tuple(fl)))
            for n in ("C", "D"):
                got = emitted(out, n)[0] or set()
                bad = sorted(set(got) & {"Eq", "Ord", "Hash"})
                if bad:
                    ck.violation("C08-float-derive:complex", "a struct holding a _Complex member derives %s" % bad, {"header": open(os.path.join(d, "c.h")).read(), "flags": fl, "derives": sorted(got)})
            if rc2 != 0:
                why = "complex-lacks-partialord" if ("--with-derive-partialord" in fl and re.search(r"can't compare `__BindgenComplex", se)) else "complex-other"
                ck.violation("C08-bindings-rejected:E0277:" + why, "rustc rejects the derives of a struct holding a _Complex member",
                             {"header": open(os.path.join(d, "c.h")).read(), "flags": fl, "rustc": e2e.rustc_errors(se, 2)})
        # ---- hand-written Debug on a struct with character arrays of every flavour, filled with non-zero bytes (no terminator anywhere)
        open(os.path.join(d, "dbg.h"), "w").write("struct R { %s; char tag[4]; unsigned secret; signed char st[2]; unsigned char ut[3]; char big[40]; short sh[3]; const char *p; char last[2]; };\n" % (FN13 % "cb"))
        for fl in (["--impl-debug"], ["--impl-debug", "--use-core", "--with-derive-default"], ["--impl-debug", "--no-derive-copy"]):
            rc, out, err = sh2([bindgen, os.path.join(d, "dbg.h"), "--no-layout-tests"] + fl, timeout=60)
            fields = ["tag", "secret", "st", "ut", "big", "sh", "p", "last"]
            body = "".join("if let Some(e) = Probe(&v.%s).dbg() { if !s.contains(&format!(\"%s: {}\", e)) { println!(\"debugfield R %s {:?} {:?}\", s, e); } } " % (f_, f_, f_) for f_ in fields)
            src = ("#![allow(warnings)]\nstruct Probe<'a, T>(&'a T);\ntrait NoDbg { fn dbg(&self) -> Option<String> { None } }\nimpl<'a, T> NoDbg for Probe<'a, T> {}\n"
                   "impl<'a, T: ::std::fmt::Debug> Probe<'a, T> { fn dbg(&self) -> Option<String> { Some(format!(\"{:?}\", self.0)) } }\n" + out +
                   "\nfn main() { let mut v: R = unsafe { ::std::mem::zeroed() }; unsafe { ::std::ptr::write_bytes(&mut v as *mut R as *mut u8, 0x41, ::std::mem::size_of::<R>()); } v.cb = None; v.p = ::std::ptr::null();\n"
                   "  let s = format!(\"{:?}\", v); println!(\"len {}\", s.len()); %s}\n" % body)
            open(os.path.join(d, "dbg.rs"), "w").write(src)
            rc2, so, se = sh2(["rustc", "--edition", "2021", "-A", "warnings", "-o", "dbg", "dbg.rs"], cwd=d, timeout=120)
            ck.evaluations += 1
            ck.nontrivial.add(("manual-debug", tuple(fl)))
            data = {"header": open(os.path.join(d, "dbg.h")).read(), "flags": fl}
            if rc2 != 0:
                ck.violation("C08-bindings-rejected:manual-debug-experiment", "rustc rejects the hand-written Debug of a struct with character arrays", dict(data, rustc=e2e.rustc_errors(se, 2)))
                continue
            rc3, so, se = sh2(["./dbg"], cwd=d, timeout=60)
            if rc3 != 0:
                ck.violation("C08-manual-impl-panics", "formatting a struct through its hand-written Debug fails", dict(data, exit=rc3, stderr=se[-300:]))
            for line in so.splitlines():
                if line.startswith("debugfield"):
                    ck.violation("C08-manual-debug-differs", "the hand-written Debug prints member %s differently from what a derive would print (`name: {:?}` of the member)" % line.split()[2], dict(data, line=line[:500]))
    finally:
        shutil.rmtree(tmp, ignore_errors=True)


def replay(ck, path):
    print(open(path).read())
    run(ck)
