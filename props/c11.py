# C11 — output is a pure function of inputs across processes, repeats and threads.
#  theorems: C11/Properties.v (order-insensitive sinks under permutation; seed independence of a pipeline whose seeded iterations end in
#            insensitive sinks; the regenerated site inventory satisfies it; init-once cells)
#  tie: translator/tr_c11.py regenerates the inventory of hash-container iteration sites and of process-wide statics on every run and
#       compares it with the committed classification (data/c11/*.json): a new / changed site or static breaks the tie
#  dynamic: the real library, through the harness: (a) fresh processes (different ASLR / RandomState), (b) histories of 1..50 generations
#       in one process in random order, (c) 2..16 threads; hashes of bindings text, callback notification sequence, flags printed back,
#       depfile and wrapper source must equal the fresh-process values
import os, re, sys, json, glob, shlex, tempfile, shutil
from concurrent.futures import ThreadPoolExecutor
import vlib
from vlib import sh, sh2, ROOT, REPO, COQ, CACHE, TieBroken
sys.path.insert(0, os.path.join(ROOT, "translator"))
import tr_c11 as tr

DATA = os.path.join(ROOT, "data", "c11")


def header_flags(h):
    first = open(h, errors="replace").readline()
    m = re.match(r"//\s*bindgen-flags:\s*(.*)", first)
    fl = shlex.split(m.group(1)) if m else []
    cl = []
    if "--" in fl:
        i = fl.index("--")
        fl, cl = fl[:i], fl[i + 1:]
    if h.endswith(".hpp") and "-x" not in cl:
        cl = cl + ["-x", "c++"]
    if h.endswith(".hpp") and not any(a.startswith("-std") for a in cl):
        cl = cl + ["-std=c++14"]
    out, skip = [], 0
    for f in fl:
        if skip:
            skip -= 1
            continue
        if f in ("--depfile", "--wrap-static-fns-path", "--wrap-static-fns-suffix", "--rustfmt-configuration-file", "--output", "-o"):
            skip = 1
            continue
        if f in ("--wrap-static-fns", "--clang-macro-fallback"):
            continue      # (the macro fallback writes fixed file names into the working directory: its own experiment below)
        out.append(f)
    return out, cl


def run_hist(exe, jobs, threads, tmp, tag, env=None):
    jf = os.path.join(tmp, "jobs_%s" % tag)
    with open(jf, "w") as f:
        for k, (jid, header, flags) in enumerate(jobs):
            # side-output paths (depfile, wrapper source) are made unique per invocation and job: concurrent runs must not share files
            flags = [x + ".%s_%d" % (tag, k) if x.startswith(tmp) else x for x in flags]
            f.write("\t".join([jid, vlib.enc(header)] + [vlib.enc(x) for x in flags]) + "\n")
    wd = os.path.join(tmp, "wd_%s" % tag)
    os.makedirs(wd, exist_ok=True)
    rc, out, err = sh2([exe, "hist", str(threads), vlib.enc(jf)], timeout=1800, cwd=wd, env=env)
    if rc != 0:
        raise TieBroken("harness-run:hist", err[-2000:])
    res = {}
    side = {jid for jid, _, flags in jobs if any(x.startswith(tmp) for x in flags)}
    for line in out.splitlines():
        p = line.split()
        if len(p) >= 7 and re.match(r"^[\w.-]+$", p[0]):
            v = list(p[1:7])
            if p[0] in side:
                v[3] = "(paths differ)"     # the flags printed back contain the per-invocation paths
            res[p[0]] = tuple(v)
    return res


def run(ck):
    quick = ck.tier == "quick"
    ck.coverage["rule"] = ("(static) every iteration site over a hash container and every static item of bindgen/ must be in the committed classification; "
                           "(dynamic) repository headers with their own flags plus side outputs (depfile, static-function wrappers): K fresh processes under varied environment, "
                           "histories of up to 50 generations in one process in random order with repeats, 2..16 threads pulling from a shared queue (same and different headers): "
                           "hashes of the bindings text, of the callback notification sequence, of the flags printed back, of the depfile and of the wrapper source must all equal the "
                           "fresh-process reference; non-trivial = a job that yields bindings; distinct by (header, flags)")
    ck.trusted += ["translator/tr_c11.py (name-based: an identifier declared with a hash type anywhere counts as a hash container everywhere — over-approximates) and the hand "
                   "classification in data/c11/sites.json / statics.json (the sink class of a site is read off the code by hand; only sites over Random / pointer-keyed containers need it)",
                   "rustc_hash (Fx) is a fixed function of the key bytes and the insertion history; std RandomState is seeded per process",
                   "runtime behaviour not exhibited by the model: libclang's internal state and thread safety, the OS scheduler; sampled by the histories and the threaded runs",
                   "hashes: std DefaultHasher with fixed keys over the full text (a collision would hide a difference)"]
    # ---- static inventory
    try:
        inv = tr.main(REPO)
    except (tr.Shape, tr.LexError, OSError) as e:
        raise TieBroken("translator:hash-iteration-sites", repr(e))
    table = json.load(open(os.path.join(DATA, "sites.json")))
    stat_table = json.load(open(os.path.join(DATA, "statics.json")))
    rows, problems = [], []
    seen = set()
    for s in inv["sites"]:
        key = "|".join([s["file"], str(s["fn"]), s["container"], s["method"], str(s["nth"])])
        seen.add(key)
        cls = "Random" if "Random" in s["hashers"] else ("PtrKeyed" if "PtrKeyed" in s["hashers"] else "Fx")
        t = table.get(key)
        if t is None:
            problems.append({"new_site": key, "hasher": cls})
            rows.append((cls, False))
            continue
        if t["hasher"] != "+".join(s["hashers"]):
            problems.append({"hasher_changed": key, "was": t["hasher"], "now": "+".join(s["hashers"])})
        rows.append((cls, bool(t["insensitive"])))
    stale = sorted(set(table) - seen)
    # containers that are Random or pointer-keyed must not be iterated at all unless classified insensitive (checked by the theorem)
    sts = {"%s|%s|%s" % (x["file"], x["fn"], x["name"]): x for x in inv["statics"]}
    for k, x in sts.items():
        if k not in stat_table:
            problems.append({"new_static": k, "type": x["type"], "mutable": x["mutable"]})
        elif x["mutable"] and not stat_table[k]["mutable"]:
            problems.append({"static_became_mutable": k})
    with open(os.path.join(COQ, "gen", "C11_Table.v"), "w") as f:
        f.write("(* generated by props/c11.py from translator/tr_c11.py + data/c11/sites.json *)\nFrom Coq Require Import List. From BG Require Import C11.Model. Import ListNotations.\n")
        f.write("Definition sites : list (hasher * bool) := [%s].\n" % "; ".join("(%s, %s)" % (c, "true" if i else "false") for c, i in rows))
    ck.obligation("translator:iteration sites + statics == committed classification", not problems,
                  json.dumps({"sites": len(rows), "statics": len(sts), "problems": problems[:6], "stale_table_entries": stale[:6],
                              "random_or_pointer_keyed_containers": sorted(k for k, v in inv["containers"].items() if any(h in ("Random", "PtrKeyed") for h, _, _ in v))})[:3000])
    if problems:
        ck.broken("tie", "hash-iteration / static inventory differs from the committed classification", json.dumps(problems[:10]))
    vlib.coq_check_properties(ck, "theories/C11/Properties.v")
    # ---- dynamic
    exe = vlib.build_harness()
    r = ck.rng
    tmp = tempfile.mkdtemp(prefix="c11_", dir=CACHE)
    try:
        hs = sorted(glob.glob(os.path.join(REPO, "bindgen-tests/tests/headers/*.h")) + glob.glob(os.path.join(REPO, "bindgen-tests/tests/headers/*.hpp")))
        hs = [h for h in hs if "objc" not in os.path.basename(h)]
        r.shuffle(hs)
        hs = hs[:40 if quick else 609]
        jobs = []
        for k, h in enumerate(hs):
            fl, cl = header_flags(h)
            fmt = r.choice(["none", "none", "prettyplease"])
            flags = fl + ["--formatter", fmt]
            x = r.random()
            if x < 0.3:
                flags += ["--depfile", os.path.join(tmp, "dep_%d.d" % k)]
            if x > 0.8 and h.endswith(".h"):
                flags += ["--experimental", "--wrap-static-fns", "--wrap-static-fns-path", os.path.join(tmp, "wrap_%d" % k)]
            jobs.append(("j%d" % k, h, flags + (["--"] + cl if cl else [])))
        # a generated header with many macros, includes and anonymous items (exercises parsed_macros / includes / naming counters)
        big = os.path.join(tmp, "big.h")
        with open(big, "w") as f:
            for i in range(300):
                f.write("#define M%d (%d + %s)\n" % (i, i, "M%d" % (i - 1) if i else "0"))
            for i in range(60):
                f.write("struct S%d { int a%d; struct { int x; union { int u; float v; }; } anon%d; enum { E%d_A, E%d_B } e%d; };\n" % (i, i, i, i, i, i))
        jobs.append(("jbig", big, ["--formatter", "none"]))
        # many functions of several calling conventions, interleaved with types and variables, under the regrouping passes
        # (the order of blocks / items is where a container's iteration order would reach the text)
        for tag, conv, cl in (("host", ["", "__attribute__((ms_abi)) ", "__attribute__((vectorcall)) ", "__attribute__((sysv_abi)) "], []),
                              ("i686", ["", "__attribute__((stdcall)) ", "__attribute__((fastcall)) ", "__attribute__((thiscall)) ", "__attribute__((vectorcall)) "], ["--target=i686-unknown-linux-gnu"])):
            p = os.path.join(tmp, "abimix_%s.h" % tag)
            with open(p, "w") as f:
                for i in range(60):
                    f.write("%sint fn%d(int a);\n" % (conv[(i * 7 + i // 3) % len(conv)], i))
                    if i % 5 == 0:
                        f.write("struct T%d { int x; };\nextern int v%d;\n" % (i, i))
            for k, extra in enumerate((["--merge-extern-blocks"], ["--merge-extern-blocks", "--sort-semantically"], ["--sort-semantically"])):
                jobs.append(("jabi%s%d" % (tag, k), p, ["--formatter", "none"] + extra + (["--"] + cl if cl else [])))
        # lists that users supply and bindgen joins per item: several field attributes (annotation + --field-attr), custom attributes and
        # custom derives on one type (the order of `#[...]` lines is output)
        p = os.path.join(tmp, "attrs.h")
        with open(p, "w") as f:
            for i in range(12):
                f.write("struct Pk%d {\n  /** <div rustbindgen attribute=\"#[allow(unused)]\"></div> */\n  int len;\n  int tag;\n  char data[8];\n};\n" % i)
        fl = []
        for i in range(12):
            for a in ("cfg(all())", "allow(dead_code)", "deprecated", "doc(hidden)", "allow(clippy::all)"):
                fl += ["--field-attr", "Pk%d::len=%s" % (i, a)]
            fl += ["--field-attr", "Pk%d::tag=allow(dead_code)" % i, "--with-attribute-custom-struct", "Pk%d=must_use,allow(non_snake_case),doc(hidden)" % i,
                   "--with-derive-custom-struct", "Pk%d=Default,PartialEq,Eq,Hash" % i]
        jobs.append(("jattrs", p, ["--formatter", "none"] + fl))
        byid = {j[0]: j for j in jobs}
        # (a) reference: one fresh process per job; then K more fresh processes under a varied environment
        def fresh(args):
            j, rep = args
            env = {"C11_NOISE_%d" % rep: "x" * (rep * 37 + 1), "MALLOC_PERTURB_": str((rep * 53) % 255)} if rep else None
            return j[0], rep, run_hist(exe, [j], 1, tmp, "f_%s_%d" % (j[0], rep), env=env).get(j[0])
        reps = 3 if quick else 6
        with ThreadPoolExecutor(max_workers=vlib.NCPU) as ex:
            fres = list(ex.map(fresh, [(j, rep) for j in jobs for rep in range(reps)]))
        ref = {}
        for jid, rep, v in fres:
            ck.evaluations += 1
            if v is None:
                raise TieBroken("harness-run:hist", "no result line for %s" % jid)
            if rep == 0:
                ref[jid] = v
                if v[0] == "OK":
                    ck.nontrivial.add(" ".join([byid[jid][1]] + byid[jid][2]))
            elif v != ref[jid]:
                which = [n for n, a, b in zip(["status", "bindings", "callbacks", "flags", "depfile", "wrapper"], ref[jid], v) if a != b]
                ck.violation("C11-process:%s" % "+".join(which), "two fresh processes produce different %s for the same header and flags" % ", ".join(which),
                             {"header": os.path.basename(byid[jid][1]), "flags": [x.replace(tmp, "<tmp>") for x in byid[jid][2]], "first": ref[jid], "other": v})
        panics = [j for j, v in ref.items() if v[0] == "PANIC"]
        ck.notes["jobs"] = len(jobs)
        ck.notes["reference_status"] = {s: sum(1 for v in ref.values() if v[0] == s) for s in ("OK", "ERR", "PANIC", "FLAGS-ERR")}
        # (b) histories in one process
        nh = 6 if quick else 40
        hist_jobs = []
        for hi in range(nh):
            n = r.choice([1, 2, 5, 10, 25, 50])
            seq = [r.choice(jobs) for _ in range(n)]
            hist_jobs.append((hi, [("%s.%d" % (j[0], k), j[1], j[2]) for k, j in enumerate(seq)]))
        def hist(x):
            hi, seq = x
            return hi, seq, run_hist(exe, seq, 1, tmp, "h%d" % hi)
        with ThreadPoolExecutor(max_workers=vlib.NCPU) as ex:
            hres = list(ex.map(hist, hist_jobs))
        for hi, seq, res in hres:
            for k, (jid, h, fl) in enumerate(seq):
                ck.evaluations += 1
                base = jid.split(".")[0]
                v = res.get(jid)
                if v != ref[base]:
                    which = [n for n, a, b in zip(["status", "bindings", "callbacks", "flags", "depfile", "wrapper"], ref[base], v or ("?",) * 6) if a != b]
                    ck.violation("C11-history:%s" % "+".join(which), "a generation that follows other generations in the same process differs from the same generation in a fresh process",
                                 {"header": os.path.basename(h), "flags": [x.replace(tmp, "<tmp>") for x in fl], "position_in_history": k,
                                  "history": [os.path.basename(x[1]) for x in seq[:k + 1]][-12:], "fresh": ref[base], "in_history": v})
                    break
        # (c) threads
        for ti, nt in enumerate([2, 4, 16] if quick else [2, 3, 4, 8, 16, 16, 16]):
            same = ti % 2 == 1
            pool = [r.choice(jobs)] * 24 if same else [r.choice(jobs) for _ in range(48)]
            seq = [("%s.%d" % (j[0], k), j[1], j[2]) for k, j in enumerate(pool)]
            res = run_hist(exe, seq, nt, tmp, "t%d" % ti)
            for jid, h, fl in seq:
                ck.evaluations += 1
                base = jid.split(".")[0]
                v = res.get(jid)
                rb = ref[base]
                if v != rb:
                    which = [n for n, a, b in zip(["status", "bindings", "callbacks", "flags", "depfile", "wrapper"], ref[base], res.get(jid) or ("?",) * 6) if a != b]
                    ck.violation("C11-threads:%s" % "+".join(which), "a generation running concurrently with others (%d threads) differs from the same generation alone" % nt,
                                 {"header": os.path.basename(h), "flags": [x.replace(tmp, "<tmp>") for x in fl], "threads": nt, "same_header_on_all_threads": same, "alone": ref[base], "concurrent": v})
                    break
        ck.sample({"job": os.path.basename(jobs[0][1]), "reference": ref[jobs[0][0]]})
        # (d) --clang-macro-fallback: every generation writes ./.macro_eval.c and ./<header>-precompile.h.pch in the working directory
        fb = []
        for k in range(6):
            p = os.path.join(tmp, "fb%d.h" % k)
            open(p, "w").write("".join("#define FB%d_%d ((int)sizeof(char[%d]) + %d)\n" % (k, i, 3 + k + i, 100 * k + i) for i in range(40)))
            fb.append(("fb%d" % k, p, ["--clang-macro-fallback", "--formatter", "none"]))
        fref = {}
        for j in fb:
            fref[j[0]] = run_hist(exe, [j], 1, tmp, "fbref_" + j[0])[j[0]]
        seq = [("%s.%d" % (j[0], k), j[1], j[2]) for k, j in enumerate(fb * 4)]
        res = run_hist(exe, seq, 6, tmp, "fbthreads")
        for jid, h, fl in seq:
            ck.evaluations += 1
            v = res.get(jid)
            if v != fref[jid.split(".")[0]]:
                ck.violation("C11-threads:clang-macro-fallback-shared-files", "concurrent generations with --clang-macro-fallback in one process interfere: they all write ./.macro_eval.c and the "
                             "precompiled header in the working directory", {"header": open(h).read()[:400], "flags": fl, "threads": 6, "alone": fref[jid.split(".")[0]], "concurrent": v})
                break
    finally:
        shutil.rmtree(tmp, ignore_errors=True)


def replay(ck, path):
    print(open(path).read())
    run(ck)
