# C03 — allocation units: the model of bitfields_to_allocation_units (C03/Alloc.v) against the real allocation of real runs.
#  per generated record: clang's bit offsets of every bit-field (-fdump-record-layouts, unnamed and zero-width ones included), the
#  declared types' size / alignment, the record's packedness as bindgen sees it (IR dump) -> C03.Alloc.run inside Coq; its unit size
#  and per-field offsets must equal the units of the IR dump (FIELD U / BITF lines)
import os, re, json
from concurrent.futures import ThreadPoolExecutor
import vlib, e2e, irdump
from vlib import sh2, TieBroken

TYPES = {"char": (1, 1), "unsigned char": (1, 1), "short": (2, 2), "unsigned short": (2, 2), "int": (4, 4), "unsigned": (4, 4), "long": (8, 8), "unsigned long long": (8, 8),
         "_Bool": (1, 1), "u64a4": (8, 4), "i64a2": (8, 2)}


def clang_layouts(h, tmp, tag):
    """record name -> [bit offset of every bit-field member, in declaration order]"""
    src = os.path.join(tmp, "rl_%s.c" % tag)
    open(src, "w").write('#include "%s"\n' % os.path.basename(h))
    # every record must be used for clang to lay it out
    names = re.findall(r"^(struct|union) (\w+) \{", open(h).read(), re.M)
    with open(src, "a") as f:
        f.write("unsigned long total = 0" + "".join(" + sizeof(%s %s)" % (k, n) for k, n in names) + ";\n")
    rc, out, err = sh2(["clang", "-std=gnu11", "-w", "-Xclang", "-fdump-record-layouts", "-fsyntax-only", src], cwd=tmp, timeout=120)
    if rc != 0:
        return None
    res, cur = {}, None
    for line in out.splitlines():
        m = re.match(r"\s*\d+ \| (?:struct|union) (\w+)\s*$", line)
        if m:
            cur = m.group(1)
            res.setdefault(cur, [])
            continue
        if line.startswith("*** Dumping"):
            cur = None
            continue
        m = re.match(r"\s*(\d+):(\d+)?-(\d+)? \|   \S", line)       # direct members only (3 spaces of indentation)
        if m and cur is not None:
            res[cur].append(int(m.group(1)) * 8 + (int(m.group(2)) if m.group(2) else 0))
    return res


def run(ck, bindgen, tmp, quick):
    r = ck.rng
    jobs = []
    for b in range(24 if quick else 200):
        g = e2e.Gen(r, bitfields=True, attrs=(b % 3 == 2), nested=False, arrays=False, unions=(b % 2 == 0))
        hdr = g.header(14)
        jobs.append((b, g.recs, hdr))

    def one(j):
        b, recs, hdr = j
        h = os.path.join(tmp, "al%d.h" % b)
        open(h, "w").write(hdr)
        lay = clang_layouts(h, tmp, "al%d" % b)
        # what CompInfo::is_packed can see: the record's alignment and the alignments of its raw fields' types
        pr = '#include <stdio.h>\n#include "%s"\nint main(void) {\n' % os.path.basename(h)
        for rec in recs:
            als = ["_Alignof(__typeof__(((%s %s *)0)->%s))" % (rec.kind, rec.name, m["name"]) for m in rec.members if m["name"] and not m["bitfield"]]
            als += [str(TYPES[m["bitfield"][0]][1]) for m in rec.members if m["bitfield"]]
            pr += '  { unsigned long mx = 0, a; %s printf("%s %%lu %%lu\\n", (unsigned long)_Alignof(%s %s), mx); }\n' % (
                " ".join("a = %s; if (a > mx) mx = a;" % x for x in als), rec.name, rec.kind, rec.name)
        pr += "  return 0; }\n"
        open(os.path.join(tmp, "pa%d.c" % b), "w").write(pr)
        aligns = {}
        rcp, op, ep = sh2(["clang", "-std=gnu11", "-w", "-o", "pa%d" % b, "pa%d.c" % b], cwd=tmp, timeout=120)
        if rcp == 0:
            rcp, op, ep = sh2([os.path.join(tmp, "pa%d" % b)], timeout=60)
            for line in op.splitlines():
                n, ra, mx = line.split()
                aligns[n] = (int(ra), int(mx))
        rc, out, err, d = irdump.run_dump(bindgen, h, ["--no-layout-tests"], [], cwd=tmp, log=os.path.join(tmp, "allog%d" % b))
        # where rustc puts each allocation unit of each struct (the theorems of C03/Compose*.v take that byte offset as a hypothesis)
        unit_at = {}
        if rc == 0:
            names = re.findall(r"pub struct (\w+) \{[^}]*?_bitfield_1\s*:", out)
            src = "#![allow(warnings)]\n" + out + "\nfn main() {\n"
            for n in names:
                body = e2e.struct_body(out, n)
                for k in re.findall(r"pub (_bitfield_\d+)\s*:", body):
                    src += '    println!("%s %s {}", ::std::mem::offset_of!(%s, %s));\n' % (n, k, n, k)
            src += "}\n"
            rs = os.path.join(tmp, "ua%d.rs" % b)
            open(rs, "w").write(src)
            rc2, o2, e2 = sh2(["rustc", "--edition", "2021", "-A", "warnings", "-o", os.path.join(tmp, "ua%d" % b), rs], cwd=tmp, timeout=300)
            if rc2 == 0:
                rc3, o3, e3 = sh2([os.path.join(tmp, "ua%d" % b)], timeout=60)
                for line in o3.splitlines():
                    n, k, v = line.split()
                    unit_at.setdefault(n, []).append(int(v))
            else:
                unit_at = None        # (the bindings of this header do not compile: C02's business, known classes E0587 / E0588 ...)
        return j, lay, rc, d, unit_at, aligns
    with ThreadPoolExecutor(max_workers=vlib.NCPU) as ex:
        results = list(ex.map(one, jobs))
    rows, metas, hdr_of = [], [], {}
    distance_bad = []
    for (b, recs, hdr), lay, rc, d, unit_at, aligns in results:
        if lay is None:
            raise TieBroken("clang-record-layouts", "clang could not dump the layouts of a generated header")
        if rc != 0 or d is None or not d.complete:
            ck.count("alloc_dump_skipped")
            continue
        byname = {it.get("name"): i for i, it in d.items.items() if it["ikind"] == "type" and it.get("tkind") == "Comp"}
        for rec in recs:
            hdr_of[id(rec)] = hdr
            offs = lay.get(rec.name)
            i = byname.get(rec.name)
            bfs = [m for m in rec.members if m["bitfield"]]
            if offs is None or i is None or len(offs) != len(bfs) or not bfs:
                continue
            it = d.items[i]
            units = [f for f in it["fields"] if f["kind"] == "U"]
            # runs of consecutive bit-field members
            runs, cur, k = [], [], 0
            for m in rec.members:
                if m["bitfield"]:
                    base, w = m["bitfield"]
                    sz, al = TYPES[base]
                    cur.append((w, al, sz, offs[k], bool(m["name"])))
                    k += 1
                elif cur:
                    runs.append(cur)
                    cur = []
            if cur:
                runs.append(cur)
            # a run that consists of zero-width fields only makes no unit
            runs = [x for x in runs if any(w for w, *_ in x)]
            if rec.kind == "union":
                # every field of a union sits at offset 0: the unit's size is what the LAST field leaves (Alloc.run: u_bits = 0 - 0 + width),
                # so a run that ends in a separator makes no unit at all (its accessors are dropped: known finding C03-union-bitfields)
                runs = [x for x in runs if x[-1][0] != 0]
            if len(runs) != len(units):
                ck.broken("correspondence", "number of allocation units vs runs of bit-fields", json.dumps({"record": rec.text(), "runs": len(runs), "units": len(units)}))
                continue
            # the flag bitfields_to_allocation_units was really called with (hook lines BFUNITS / BFPACKED): CompInfo::is_packed looks at the
            # RAW fields at that time (a bit-field's declared type may be more aligned than a #pragma pack'ed record), and answers
            # differently once the fields have been grouped into units, which is when the dump is written
            packed = d.bfpacked.get(i, it.get("packed") == "1")
            if i not in d.bfpacked:
                ck.count("alloc_packed_flag_from_dump_not_hook")
            # hypothesis of the composition theorems: the unit of a run sits at the byte where the run's first field starts in C
            if rec.kind == "struct" and unit_at and rec.name in unit_at and len(unit_at[rec.name]) == len(runs):
                for k, (run_, at) in enumerate(zip(runs, unit_at[rec.name])):
                    ck.count("alloc_units_with_rust_offset")
                    first = run_[0][3]
                    if first % 8:
                        ck.count("alloc_runs_not_starting_on_a_byte")
                    elif at != first // 8:
                        grp = "packed-or-aligned" if rec.features & {"packed", "pragma-pack", "member-aligned", "type-aligned"} else "plain"
                        ck.violation("C03-unit-offset:%s" % grp, "allocation unit %d sits at byte %d of the Rust struct; its first bit-field starts at bit %d (byte %d) of the C object" % (k + 1, at, first, first // 8),
                                     {"record": rec.text(), "features": sorted(rec.features), "unit": k + 1, "rust_byte": at, "c_first_bit": first})
            elif unit_at is None:
                ck.count("alloc_headers_whose_bindings_do_not_compile")
            for run_, u in zip(runs, units):
                impl = [(bf["off"], bf["width"]) for bf in u["bitfields"]]
                # the conclusion of C03/AllocProperties.v fields_keep_their_c_offsets evaluated on the implementation's own unit, whatever
                # `packed` flag it was built with: the fields of a struct's run keep their distances (clang's bit offsets)
                if rec.kind == "struct":
                    cl = [(o, w) for (w, al, sz, o, nm) in run_] if len(impl) == len(run_) else [(o, w) for (w, al, sz, o, nm) in run_ if nm]
                    if len(cl) == len(impl):
                        nz = [k for k in range(len(cl)) if cl[k][1] > 0]
                        bad = [k for k in nz if impl[k][0] - impl[nz[0]][0] != cl[k][0] - cl[nz[0]][0]]
                        if bad:
                            distance_bad.append((rec, run_, u, packed, bad, aligns.get(rec.name)))
                rows.append("(%s, [%s], %d, [%s])" % ("true" if packed else "false",
                                                      "; ".join("{| bw := %d; bal := %d; bsz := %d; boff := Some %d; bnamed := %s |}" % (w, al, sz, o, "true" if nm else "false") for (w, al, sz, o, nm) in run_),
                                                      u["size"], "; ".join("(%d, %d)" % x for x in impl)))
                metas.append((rec, run_, u, packed))
                ck.evaluations += 1
                ck.nontrivial.add(("alloc", rec.text(), tuple(run_)))
    if not rows:
        raise TieBroken("c03-alloc", "no allocation unit could be compared")
    ok, out = vlib.coq_make(["theories/C03/Alloc.vo"])
    if not ok:
        raise TieBroken("coq-build:C03/Alloc", out)
    body = """From Coq Require Import NArith List Bool.
From BG Require Import C03.Alloc.
Import ListNotations. Open Scope N_scope.
Definition rows : list (bool * list rawbf * N * list (N * N)) := [
%s
].
Fixpoint peqb (a b : list (N * N)) : bool :=
  match a, b with [], [] => true | (x, y) :: a', (u, v) :: b' => (x =? u) && (y =? v) && peqb a' b' | _, _ => false end.
(* the dump lists the named bit-fields of a unit; the model keeps every field of the run: compare on the named ones *)
Definition named_fields (bs : list rawbf) (fs : list (N * N)) : list (N * N) :=
  map snd (filter (fun p => bnamed (fst p)) (combine bs fs)).
Fixpoint idx (i : N) (l : list (bool * list rawbf * N * list (N * N))) : list N :=
  match l with
  | [] => []
  | (p, bs, sz, fs) :: l' =>
      let s := run p bs in
      (if (unit_bytes s =? sz) && (peqb (u_fields s) fs || peqb (named_fields bs (u_fields s)) fs) then [] else [i]) ++ idx (i + 1) l'
  end.
Eval vm_compute in idx 0 rows.
(* rows on which the hypotheses of fields_keep_their_c_offsets / unit_covers_every_field hold (the theorems speak about these) *)
Definition hyps (p : bool) (bs : list rawbf) : bool :=
  match known bs with
  | Some offs => ends_monotone offs && forallb (fun b => (0 <? bal b) && match boff b with Some o => c_placed p b o | None => false end) bs
  | None => false
  end.
Fixpoint nohyp (i : N) (l : list (bool * list rawbf * N * list (N * N))) : list N :=
  match l with [] => [] | (p, bs, _, _) :: l' => (if hyps p bs then [] else [i]) ++ nohyp (i + 1) l' end.
Eval vm_compute in nohyp 0 rows.
""" % ";\n".join(rows)
    rc, out = vlib.coq_eval("c03_alloc", body, timeout=900)
    ls = vlib.parse_coq_nlists(out) if rc == 0 else []
    if rc != 0 or len(ls) != 2 or ls[0] is None or ls[1] is None:
        raise TieBroken("coq-eval:C03/alloc", out[-2500:])
    import c03_e2e
    searched = set()
    unexplained = 0
    for rec, run_, u, packed, bad, al in distance_bad[:12]:
        info = {"record": rec.text(), "packed flag used by bindgen": packed, "run (width, align, size, clang bit offset, named)": run_,
                "implementation_unit": [(b_["off"], b_["width"], b_["name"]) for b_ in u["bitfields"]], "fields whose distance from the first differs from C": bad,
                "record alignment / largest field-type alignment": al}
        if "pragma-pack" in rec.features and not packed and al and al[1] <= al[0]:
            # #pragma pack(N) that does not lower the record's alignment below any field type's: invisible to CompInfo::is_packed (libclang
            # does not expose the pragma), yet clang packs the bit-fields back to back
            if not ck.violation("C03-pragma-pack-undetected", "a record under #pragma pack(N) whose alignment is not below any of its field types' is not recognised as packed: bit-fields that clang lays out back "
                                "to back are re-aligned to their declared type, so accessors use other bits than C", info):
                continue
        unexplained += 1
        if rec.name + rec.text() not in searched and any(m["bitfield"] and m["name"] for m in rec.members):
            searched.add(rec.name + rec.text())
            hdr = hdr_of[id(rec)]
            res = c03_e2e.exercise(bindgen, tmp, "dist_%s" % rec.name, [rec], hdr, 13, allow=rec.name)
            c03_e2e.judge(ck, rec, res, hdr)
        ck.broken("property-on-implementation", "C03/AllocProperties.v fields_keep_their_c_offsets (conclusion evaluated on the unit bindgen built)", json.dumps(info))
    ck.obligation("property-on-implementation:fields of every struct unit keep their C distances", unexplained == 0,
                  "%d units with a wrong distance, %d outside the known blind spot of #pragma pack detection" % (len(distance_bad), unexplained))
    for i in ls[0][:5]:
        rec, run_, u, packed = metas[i]
        # search for a concrete failing input: the accessors of this record against C setters / getters
        if rec.name + rec.text() not in searched and any(m["bitfield"] and m["name"] for m in rec.members):
            searched.add(rec.name + rec.text())
            hdr = hdr_of[id(rec)]
            res = c03_e2e.exercise(bindgen, tmp, "alloc_%d" % i, [rec], hdr, 11, allow=rec.name)
            c03_e2e.judge(ck, rec, res, hdr)
        ck.broken("correspondence", "bitfields_to_allocation_units vs C03/Alloc.run", json.dumps({"record": rec.text(), "packed": packed, "run (width, align, size, clang bit offset, named)": run_,
                                                                                                   "implementation_unit": {"bytes": u["size"], "fields": [(b_["off"], b_["width"], b_["name"]) for b_ in u["bitfields"]]}}))
    # runs outside the theorems' hypotheses: unions (every field at 0) are expected there; a struct run is reported in the evidence
    outside = [metas[i] for i in ls[1]]
    ck.notes["alloc_runs_meeting_theorem_hypotheses"] = len(rows) - len(outside)
    ck.notes["alloc_runs_outside_hypotheses_union"] = sum(1 for m in outside if m[0].kind == "union")
    ck.notes["alloc_runs_outside_hypotheses_struct"] = sum(1 for m in outside if m[0].kind != "union")
    for m in [m for m in outside if m[0].kind != "union"][:2]:
        ck.sample({"struct run outside c_placed / ends_monotone (offsets still compared)": m[0].text(), "run": m[1]})
    ck.obligation("correspondence:bitfields_to_allocation_units==C03/Alloc.run", not ls[0], "%d allocation units of %d generated headers, %d mismatches" % (len(rows), len(results), len(ls[0])))
