# C14 — bindings use only features of the selected Rust target, monotonically.
#  tie 1 (translator): features.rs tables -> coq/gen/C14_Table.v, theorems re-checked against it
#  tie 2 (correspondence): RustFeatures::new / is_available (hook) vs Model.features_new on
#         every minor 0..latest+2 x patch {0,7} x editions + nightly, compared inside Coq
#  end-to-end: real CLI on a trigger header per (target, edition); token present => spec allows,
#         and token presence is monotone in the target
import os, re, sys, json
import vlib
from vlib import sh, sh2, ROOT, REPO, COQ, TieBroken, enc, dec
sys.path.insert(0, os.path.join(ROOT, "translator"))
import tr_c14 as tr

TRIG = os.path.join(ROOT, "data", "c14", "trigger.h")
CLI_FLAGS = ["--generate-cstr", "--use-core", "--flexarray-dst",
             "--override-abi", "f_thiscall=thiscall", "--override-abi", "f_vectorcall=vectorcall",
             "--override-abi", "f_cunwind=C-unwind", "--override-abi", "f_efiapi=efiapi"]
# token that shows a construct in generated text
TOKENS = {
    "unsafe_extern_blocks": r"\bunsafe\s+extern\b",
    "offset_of": r"\boffset_of\s*!",
    "literal_cstr": r'(?<![A-Za-z0-9_])c"',
    "const_cstr": r'(?<![A-Za-z0-9_])c"|from_bytes_with_nul_unchecked',
    "core_ffi_c": r"::core::ffi::c_int\b",
    "lib_core_ffi_cstr": r"::core::ffi::CStr\b",     # a library path, not a row of the table: core::ffi::CStr exists from 1.64 (C14/Spec.v)
    "thiscall_abi": r'extern\s+"thiscall"',
    "vectorcall_abi": r'extern\s+"vectorcall"',
    "c_unwind_abi": r'extern\s+"C-unwind"',
    "abi_efiapi": r'extern\s+"efiapi"',
    "ptr_metadata": r"\bfrom_raw_parts\b",
    "layout_for_ptr": r"\bfor_value_raw\b",
}


def coq_target(t):
    return "Nightly" if t == "nightly" else "(Stable %d %d)" % t


def tstr(t):
    return "nightly" if t == "nightly" else "1.%d.%d" % t


def run(ck):
    quick = ck.tier == "quick"
    ck.coverage["rule"] = ("tables regenerated from features.rs; RustFeatures::new vs model for every minor 0..latest+2 x patch {0,7} x every declared edition "
                           "(+ one undeclared) + nightly; CLI token scan per (target, edition); a case is non-trivial when at least one feature flag or the "
                           "edition verdict differs from the previous minor, distinct per (target, edition)")
    ck.trusted += ["translator/tr_c14.py + translator/rustlex.py (tokenizer for define_rust_targets!/define_rust_editions! invocations, fails closed on unknown shapes)",
                   "theories/C14/Spec.v: stabilisation releases hand-written from the Rust release notes (the specification side)",
                   "hook verif_hooks::rust_features (lists RustFeatures fields through a cfg(bindgen_verif) method generated inside define_rust_targets!)",
                   "modelled, not verified: the macro bodies of define_rust_targets!/define_rust_editions! are transcribed by hand in C14/Model.v and tied by the exhaustive differential run"]
    # ---- tie 1: translator
    try:
        editions, nightly, rows, fp = tr.main(REPO, os.path.join(COQ, "gen", "C14_Table.v"))
    except (tr.Shape, tr.LexError, OSError) as e:
        raise TieBroken("translator:features.rs", repr(e))
    ck.notes["macro_fingerprints"] = fp
    ck.obligation("translator:features.rs->C14_Table.v", True, "%d editions, %d nightly features, %d stable rows" % (len(editions), len(nightly), len(rows)))
    proofs_ok = vlib.coq_check_properties(ck, "theories/C14/Properties.v")
    ok, out = vlib.coq_make(["theories/C14/Search.vo", "gen/C14_Table.vo"])
    if not ok:
        raise TieBroken("coq-build:C14/Search", out)
    latest = max([m for m, _ in rows] + [0])
    maxminor = latest + 3
    # ---- witness search on the regenerated table (always run; cheap)
    rc, out = vlib.coq_eval("c14_search", """From Coq Require Import NArith List String.
From BG Require Import C14.Model C14.Spec C14.Search.
From BGgen Require Import C14_Table.
Import ListNotations.
Eval vm_compute in (map (fun x => (fst (fst x), (snd (fst x), snd x))) (violations T %d)).
Eval vm_compute in (nightly_violations T).
Eval vm_compute in (edition_violations T %d).
""" % (maxminor, maxminor))
    if rc != 0:
        raise TieBroken("coq-eval:C14/Search", out)
    blocks = re.findall(r"=\s*(\[.*?\])\s*:\s*list", out, re.S)
    viol = re.findall(r'\("([a-z_0-9]+)"%?s?t?r?i?n?g?,\s*\((\d+)%?N?,\s*(\d+)%?N?\)\)', blocks[0]) if blocks else []
    nviol = re.findall(r'\("([a-z_0-9]+)"%?s?t?r?i?n?g?,\s*(\d+)', blocks[1]) if len(blocks) > 1 else []
    eviol = re.findall(r"\((\d+)%?N?,\s*(\d+)", blocks[2]) if len(blocks) > 2 else []
    if len(blocks) != 3:
        raise TieBroken("coq-eval:C14/Search-parse", out)
    # ---- harness
    vlib.build_harness()
    bindgen = vlib.build_cli()
    eds = [e for e, _ in editions]
    targets = []
    for m in range(0, maxminor):
        for p in (0, 7):
            targets.append((m, p))
    targets.append("nightly")
    cases = [(t, e) for t in targets for e in eds + [2015]]
    res = vlib.bgv("feat", ["%s\t%d" % (tstr(t), e) for t, e in cases])
    # confirm each model-level witness on the implementation: that is the concrete failing input
    bymap = {}
    for (t, e), r in zip(cases, res):
        bymap[(tstr(t), e)] = r
    for f, m, e in viol[:6]:
        r = bymap.get(("1.%s.0" % m, int(e)), "")
        if re.search(r"\b%s=1\b" % f, r):
            ck.violation("C14-too-early:" + f, "feature %s enabled for Rust 1.%s edition %s, before its stabilisation" % (f, m, e),
                         {"feature": f, "rust_target": "1.%s" % m, "edition": int(e), "RustFeatures::new": r,
                          "how": "bgv feat <<< '1.%s\\t%s'  (or: bindgen data/c14/trigger.h --rust-target 1.%s ... and look for the construct)" % (m, e, m)})
    for f, e in nviol[:3]:
        ck.violation("C14-nightly-edition:" + f, "feature %s enabled on nightly for edition %s which the spec excludes" % (f, e), {"feature": f, "edition": int(e)})
    for e, m in eviol[:3]:
        r = bymap.get(("1.%s.0" % m, int(e)), "")
        if "@edition_available=1" in r:
            ck.violation("C14-edition-too-early:%s" % e, "edition %s accepted for Rust 1.%s, released later" % (e, m), {"edition": int(e), "rust_target": "1.%s" % m, "impl": r})
    # ---- tie 2: implementation vs model, compared inside Coq
    impl_terms, kept = [], []
    prev = None
    for (t, e), r in zip(cases, res):
        ck.evaluations += 1
        if r.startswith("ERR"):
            # rejected by RustTarget::from_str (too early) or by RustEdition::from_str (unknown edition)
            exp_err_target = t != "nightly" and False
            impl_terms.append("(%s, %d, None)" % (coq_target(t), e))
        else:
            kv = [x.split("=") for x in r.split()]
            av = [v for k, v in kv if k == "@edition_available"][0]
            fl = "; ".join('("%s", %s)' % (k, "true" if v == "1" else "false") for k, v in kv if not k.startswith("@"))
            impl_terms.append("(%s, %d, Some (%s, [%s]))" % (coq_target(t), e, "true" if av == "1" else "false", fl))
        if r != prev:
            ck.nontrivial.add((tstr(t), e))
        prev = r
        kept.append((t, e, r))
    body = """From Coq Require Import NArith List Bool String.
From BG Require Import C14.Model.
From BGgen Require Import C14_Table.
Import ListNotations. Open Scope N_scope. Open Scope string_scope.
Definition flag_eqb (a b : string * bool) := String.eqb (fst a) (fst b) && Bool.eqb (snd a) (snd b).
Fixpoint list_eqb {A} (eq : A -> A -> bool) (l l' : list A) : bool :=
  match l, l' with [], [] => true | a :: l, b :: l' => eq a b && list_eqb eq l l' | _, _ => false end.
(* what the implementation must answer: None when the target is below the earliest supported
   release or the edition is not declared; otherwise (edition available?, RustFeatures::new) *)
Definition expected (t : target) (e : N) : option (bool * list (string * bool)) :=
  match t with
  | Stable m p => match mk_stable T m p with None => None | Some _ =>
                    match edition_minor T e with None => None | Some _ =>
                      Some (edition_available T e t, features_new T t e) end end
  | Nightly => match edition_minor T e with None => None | Some _ =>
                 Some (true, features_new T t e) end
  end.
Definition agree (c : target * N * option (bool * list (string * bool))) : bool :=
  match expected (fst (fst c)) (snd (fst c)), snd c with
  | None, None => true
  | Some (a, fl), Some (a', fl') => Bool.eqb a a' && list_eqb flag_eqb fl fl'
  | _, _ => false
  end.
Fixpoint mismatches (i : N) (l : list (target * N * option (bool * list (string * bool)))) : list N :=
  match l with [] => [] | c :: l' => (if agree c then [] else [i]) ++ mismatches (i + 1) l' end.
Definition cases : list (target * N * option (bool * list (string * bool))) := [
%s
].
Eval vm_compute in mismatches 0 cases.
""" % ";\n".join(impl_terms)
    rc, out = vlib.coq_eval("c14_cases", body)
    if rc != 0:
        raise TieBroken("coq-eval:C14/cases", out[-3000:])
    mm = vlib.parse_coq_nlists(out)
    if not mm or mm[0] is None:
        raise TieBroken("coq-eval:C14/cases-parse", out[-2000:])
    mm = mm[0]
    ck.coverage["traces_validated_against_impl"] = len(cases) - len(mm)
    ck.obligation("correspondence:RustFeatures::new==C14/Model.features_new", not mm, "%d (target, edition) cases, %d mismatches" % (len(cases), len(mm)))
    if mm:
        det = [{"target": tstr(kept[i][0]), "edition": kept[i][1], "implementation": kept[i][2]} for i in mm[:10]]
        ck.broken("correspondence", "RustFeatures::new vs C14/Model.v", json.dumps(det, indent=1))
        # concrete failing input search on the implementation itself: monotonicity + spec (python restatement of the two facts)
        search_impl(ck, kept)
    ck.sample({"target": "1.77.0", "edition": 2021, "implementation": bymap.get(("1.77.0", 2021))})
    ck.sample({"target": "1.77.0", "edition": 2018, "implementation": bymap.get(("1.77.0", 2018))})
    ck.sample({"target": "1.30.0", "edition": 2018, "implementation": bymap.get(("1.30.0", 2018))})
    # defaults
    d = vlib.bgv("defaults", [])
    dt, de = d[0].split("\t")
    exp_t = "1.%d.0" % latest
    last_av = [e for e, m in editions if m <= latest][-1] if [e for e, m in editions if m <= latest] else None
    okd = dt == exp_t and str(last_av) == de
    ck.evaluations += 1
    ck.obligation("correspondence:defaults==newest stable release and its newest edition", okd, "impl %s/%s, table %s/%s" % (dt, de, exp_t, last_av))
    if not okd:
        ck.violation("C14-default", "default target/edition is not the newest stable release / its newest edition", {"implementation": [dt, de], "expected": [exp_t, last_av]})
    # ---- the `--rust-target` string: RustTarget::from_str / Display vs C14/Parse.v, and the pre-release rule on the implementation
    parse_tie(ck, editions, rows, latest)
    # ---- end to end: CLI token scan
    cli_scan(ck, bindgen, editions, rows, nightly, latest, quick)


def parse_tie(ck, editions, rows, latest):
    """(a) every generated target string: the implementation's answer (Display of the parsed target, or an error) == C14/Parse.answer, compared
    inside Coq; (b) the property itself on the implementation: `1.N.P-nightly` must not enable any feature or edition that arrived with 1.N,
    must be rejected when 1.N is the oldest supported release, and `-beta` must answer like the release."""
    vlib.coq_check_properties(ck, "theories/C14/ParseProperties.v")
    r = ck.rng
    minors_all = sorted({m for m, _ in rows} | {m for _, m in editions})
    earliest = min(m for m, _ in rows)
    U = 18446744073709551615
    minors = sorted(set([0, 1, earliest - 1, earliest, earliest + 1, latest, latest + 1, 999, U, U + 1] + minors_all + [m + 1 for m in minors_all] + [r.randrange(0, latest + 5) for _ in range(10)]))
    sufs = ["", "-beta", "-beta.1", "-beta.22", "-nightly", "-", "-beta.", "-betax", "-alpha", "-nightly.1", "-Nightly", "-nightly-x", "-beta-nightly", "-rc1"]
    strs = ["nightly", "Nightly", "nightly-", "", "1", "1.", "1..", ".1", "2.5", "2.5.0-nightly", "01.70", "1.70.0.0", "1.-5", "1.7e1", "1.0x10", " 1.70", "1.70 ", "1. 70", "1.+70", "1.+70.+3",
            "+1.70", "1.070.007", "1.70.", "1..70", "1.70.0-nightly", "0.70", "1.70.+", "1.+", "1.+-nightly", "10.70", "1,70", "v1.70", "1.70.0+meta", "stable", "beta", "1.x"]
    for m in minors:
        for pa in ("", ".0", ".7", ".%d" % U, ".%d" % (U + 1)):
            for su in sufs:
                if pa in ("", ".0") or r.random() < 0.25:
                    strs.append("1.%d%s%s" % (m, pa, su))
    strs = sorted(set(strs) - {""})    # (the harness skips empty input lines)
    impl = vlib.bgv("target", [vlib.enc(x) for x in strs])
    if len(impl) != len(strs):
        raise TieBroken("harness-run:target", "%d answers for %d strings" % (len(impl), len(strs)))
    ans = []
    for x, a in zip(strs, impl):
        ck.evaluations += 1
        ans.append("ERR" if a.startswith("ERR") else a.split("\t")[0])
    ck.nontrivial.update(("target-string", x) for x, a in zip(strs, ans) if a != "ERR")
    ck.count("target_strings_compared", len(strs))
    ck.count("target_strings_accepted", sum(1 for a in ans if a != "ERR"))
    ck.count("target_strings_nightly_prerelease_accepted", sum(1 for x, a in zip(strs, ans) if a != "ERR" and x.endswith("-nightly")))
    q = lambda t: '"' + t.replace('"', '""') + '"'
    body = """From Coq Require Import NArith List Bool String.
From BG Require Import C14.Model C14.Parse.
From BGgen Require Import C14_Table.
Import ListNotations. Open Scope N_scope. Open Scope string_scope.
Eval vm_compute in (mismatches T 0 [%s]).
""" % ";\n ".join("(%s, %s)" % (q(x), q(a)) for x, a in zip(strs, ans))
    rc, out = vlib.coq_eval("c14_parse", body)
    ls = vlib.parse_coq_nlists(out) if rc == 0 else []
    if rc != 0 or len(ls) != 1 or ls[0] is None:
        raise TieBroken("coq-eval:C14/Parse", out[-2000:])
    bad = ls[0]
    ck.obligation("correspondence:RustTarget::from_str/Display==C14/Parse.answer", not bad, "%d strings (%d accepted), %d differ" % (len(strs), sum(1 for a in ans if a != "ERR"), len(bad)))
    # (b) the rule itself, on the implementation
    found = False
    byrow = {m: [f for f, _ in fs] for m, fs in rows}
    edmin = {m: e for e, m in editions}
    eds = [e for e, _ in editions]
    cases = [(m, e) for m in sorted(set(byrow) | set(edmin)) for e in eds]
    res = vlib.bgv("feat", ["1.%d.0-nightly\t%d" % (m, e) for m, e in cases])
    for (m, e), rr in zip(cases, res):
        ck.evaluations += 1
        if rr.startswith("ERR"):
            continue
        if m == earliest:
            found = True
            ck.violation("C14-prerelease-of-earliest-accepted", "1.%d.0-nightly is accepted although the release before 1.%d is not supported" % (m, m), {"rust_target": "1.%d.0-nightly" % m, "impl": rr[:300]})
            continue
        on = [f for f in byrow.get(m, []) if re.search(r"\b%s=1\b" % f, rr)]
        if on:
            found = True
            ck.violation("C14-prerelease-too-new:" + on[0], "feature %s, stabilised in Rust 1.%d, is enabled for the pre-release target 1.%d.0-nightly (edition %d)" % (on[0], m, m, e),
                         {"feature": on[0], "rust_target": "1.%d.0-nightly" % m, "edition": e, "RustFeatures::new": rr, "how": "bgv feat <<< '1.%d.0-nightly\\t%d'  (or bindgen data/c14/trigger.h --rust-target 1.%d.0-nightly)" % (m, e, m)})
        if edmin.get(m) == e and "@edition_available=1" in rr:
            found = True
            ck.violation("C14-prerelease-edition-too-new:%d" % e, "edition %d, which arrived with Rust 1.%d, is available for the pre-release target 1.%d.0-nightly" % (e, m, m), {"edition": e, "rust_target": "1.%d.0-nightly" % m, "impl": rr[:300]})
    d = dict(zip(strs, ans))
    for x, a in d.items():
        if x.endswith("-beta") and x[:-5] in d and "-" not in x[:-5] and d[x[:-5]] != a:
            found = True
            ck.violation("C14-beta-differs", "a -beta target string is not read as the release it leads to", {"string": x, "answer": a, "release_answer": d[x[:-5]]})
    if bad and not found:
        i = bad[0]
        ck.broken("correspondence", "RustTarget::from_str vs C14/Parse", json.dumps({"string": strs[i], "implementation": ans[i], "first_differences": [(strs[j], ans[j]) for j in bad[:8]]}))
    elif bad:
        ck.notes["parse_model_differences"] = [(strs[j], ans[j]) for j in bad[:8]]


def search_impl(ck, kept):
    """the implementation's own answers: look for a non-monotone flag"""
    by = {}
    for t, e, r in kept:
        if r.startswith("ERR") or t == "nightly" or t[1] != 0:
            continue
        by.setdefault(e, []).append((t[0], dict(x.split("=") for x in r.split())))
    for e, seq in by.items():
        seq.sort()
        for (m1, f1), (m2, f2) in zip(seq, seq[1:]):
            for k in f1:
                if f1[k] == "1" and f2.get(k) == "0":
                    ck.violation("C14-nonmonotone:" + k, "%s enabled for 1.%d but not for 1.%d (edition %d)" % (k, m1, m2, e),
                                 {"feature": k, "edition": e, "enabled_at": "1.%d" % m1, "disabled_at": "1.%d" % m2})
                    return


def cli_scan(ck, bindgen, editions, rows, nightly, latest, quick):
    # allowed matrix from the Coq spec
    feats = sorted(TOKENS)
    minors = sorted({m for m, _ in rows} | {m - 1 for m, _ in rows if m > 0} | {latest + 1, latest + 2})
    earliest = min(m for m, _ in rows)
    minors = [m for m in minors if m >= earliest]
    if not quick:
        minors = list(range(earliest, latest + 3))
    eds = [e for e, _ in editions]
    combos = [((m, 0), e) for m in minors for e in eds] + [("nightly", e) for e in eds]
    terms = "; ".join("(%s, %d)" % (coq_target(t), e) for t, e in combos)
    rc, out = vlib.coq_eval("c14_allowed", """From Coq Require Import NArith List Bool String.
From BG Require Import C14.Model C14.Spec.
From BGgen Require Import C14_Table.
Import ListNotations. Open Scope N_scope. Open Scope string_scope.
Definition fs := [%s].
Eval vm_compute in map (fun c => (if edition_available T (snd c) (fst c) then 1 else 0) :: map (fun f => if spec_allows stabilised_in f (fst c) (snd c) then 1 else 0) fs) [%s].
""" % ("; ".join('"%s"' % f for f in feats), terms))
    if rc != 0:
        raise TieBroken("coq-eval:C14/allowed", out[-2000:])
    allowed = vlib.parse_coq_nlists(out)[0]
    from concurrent.futures import ThreadPoolExecutor

    def one(c):
        t, e = c
        cmd = [bindgen, TRIG, "--rust-target", "nightly" if t == "nightly" else "1.%d" % t[0], "--rust-edition", str(e)] + CLI_FLAGS
        rc, o, err = sh2(cmd, timeout=120)
        # the same without --use-core: std paths, and gates that only apply to one of the two prefixes (seed C14-2 as re-made after fix 2aa7f965)
        rc2, o2, err2 = sh2([x for x in cmd if x != "--use-core"], timeout=120)
        if rc == 0 and rc2 == 0:
            return 0, o + "\n" + o2, err
        return (rc or rc2), o, (err if rc else err2)
    with ThreadPoolExecutor(max_workers=vlib.NCPU) as ex:
        outs = list(ex.map(one, combos))
    present = {}
    for (t, e), (rc, o, err), al in zip(combos, outs, allowed):
        ck.evaluations += 1
        ed_ok = al[0] == 1
        if (rc == 0) != ed_ok:
            ck.violation("C14-edition-verdict", "CLI %s edition %d for target %s but the table says %s" % ("accepts" if rc == 0 else "rejects", e, tstr(t), "available" if ed_ok else "unavailable"),
                         {"target": tstr(t), "edition": e, "exit": rc, "stderr": err[-400:]})
            continue
        if rc != 0:
            ck.count("cli_rejected_pairs")
            if "edition" not in err.lower():
                ck.violation("C14-edition-error-kind", "rejected (target, edition) pair does not produce the unsupported-edition error", {"target": tstr(t), "edition": e, "stderr": err[-400:]})
            continue
        ck.nontrivial.add(("cli", tstr(t), e))
        for f, a in zip(feats, al[1:]):
            has = re.search(TOKENS[f], o) is not None
            present[(f, t, e)] = has
            if has and not a:
                ck.violation("C14-cli-too-early:" + f, "generated text uses %s for target %s edition %d, before its stabilisation" % (f, tstr(t), e),
                             {"feature": f, "target": tstr(t), "edition": e, "cmd": "bindgen data/c14/trigger.h --rust-target %s --rust-edition %d %s" % (tstr(t), e, " ".join(CLI_FLAGS))})
    # monotone presence
    for f in feats:
        for e in eds:
            seq = [(t, present[(f, t, e)]) for t, e2 in combos if e2 == e and (f, t, e) in present and t != "nightly"]
            seq.sort(key=lambda x: x[0])
            for (t1, h1), (t2, h2) in zip(seq, seq[1:]):
                if h1 and not h2:
                    ck.violation("C14-cli-nonmonotone:" + f, "construct %s emitted for %s but not for the later %s (edition %d)" % (f, tstr(t1), tstr(t2), e),
                                 {"feature": f, "edition": e, "present_at": tstr(t1), "absent_at": tstr(t2)})
                    break
            if seq and ("nightly", e) in [(t, e2) for t, e2 in combos] and (f, "nightly", e) in present:
                if any(h for _, h in seq) and not present[(f, "nightly", e)]:
                    ck.violation("C14-cli-nonmonotone-nightly:" + f, "construct %s emitted for a stable target but not for nightly (edition %d)" % (f, e), {"feature": f, "edition": e})
    # each stable construct does show up at its first allowed target (the trigger header is effective)
    seen_any = {f for (f, t, e), h in present.items() if h}
    ck.notes["cli_constructs_seen"] = sorted(seen_any)
    ck.notes["cli_runs"] = len(combos)
    ck.sample({"cli": "bindgen data/c14/trigger.h --rust-target 1.77 --rust-edition 2021 " + " ".join(CLI_FLAGS),
               "constructs_present": sorted(f for (f, t, e), h in present.items() if h and t == (77, 0) and e == 2021)})


def replay(ck, path):
    print(open(path).read())
    run(ck)
