// triggers every construct gated on a Rust target feature
int plain_fn(int);
extern int a_static;
#define A_STRING "hello"
const char* const a_cstr = "hi";
void f_thiscall(int);
void f_vectorcall(int);
void f_cunwind(int);
void f_efiapi(int);
struct with_field { int a; long b; };
struct fam { int len; int data[]; };
