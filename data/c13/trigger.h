// feature-trigger header for the C13 round trips: something for most options to act on
#define A_MACRO 42
#define A_STRING "hello"
typedef unsigned long my_size;
typedef int an_alias;
enum an_enum { AE_A, AE_B = 5 };
enum { ANON_X = 1 };
union a_union { int i; float f; };
struct with_field { int a; long b; char c : 3; an_alias d; double e[2]; void (*cb)(int); };
struct opaque_me { int hidden; };
struct fam { int len; int data[]; };
struct with_field *plain_fn(const struct with_field *p, enum an_enum e);
int f_two(union a_union u);
static inline int inl(int x) { return x + 1; }
extern int v_1;
extern const char *const v_2;
