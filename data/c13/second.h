struct uses_handle { handle_t h; int n; };
