#ifdef HANDLE_IS_WIDE
typedef unsigned long long handle_t;
#else
typedef unsigned int handle_t;
#endif
handle_t open_handle(void);
