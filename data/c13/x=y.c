#include "/verif/data/c13/trigger.h"

// Static wrappers

int inl__extern(int x) { return inl(x); }
