# End-to-end layout oracle shared by C02 / C03 / C06 / C10: generate C record types, run the real bindgen,
# measure the C side with clang and the Rust side with rustc, compare numbers.
import os, re, json
import vlib
from vlib import sh2

SCALARS = [("char", 1, 1), ("signed char", 1, 1), ("unsigned char", 1, 1), ("short", 2, 2), ("unsigned short", 2, 2), ("int", 4, 4), ("unsigned", 4, 4),
           ("long", 8, 8), ("unsigned long long", 8, 8), ("float", 4, 4), ("double", 8, 8), ("long double", 16, 16), ("void *", 8, 8), ("_Bool", 1, 1),
           ("int *", 8, 8), ("char *", 8, 8), ("__int128", 16, 16)]
BF_BASES = ["char", "unsigned char", "short", "unsigned short", "int", "unsigned", "long", "unsigned long long", "_Bool"]
# typedefs whose alignment is below their size (as unsigned long long is on i386): only used when attributes are allowed
PRELUDE_ATTR = "typedef unsigned long long u64a4 __attribute__((aligned(4)));\ntypedef long i64a2 __attribute__((aligned(2)));\n"


class Rec:
    def __init__(self, name, kind="struct"):
        self.name, self.kind = name, kind
        self.members = []     # dicts: {name, decl, bitfield: (base, width)|None, anon: bool}
        self.attrs = ""       # trailing attribute text
        self.pragma_pack = None
        self.features = set()

    def text(self):
        s = ""
        if self.pragma_pack:
            s += "#pragma pack(push, %d)\n" % self.pragma_pack
        s += "%s %s {\n" % (self.kind, self.name)
        for m in self.members:
            s += "  %s;\n" % m["decl"]
        s += "}%s;\n" % ((" " + self.attrs) if self.attrs else "")
        if self.pragma_pack:
            s += "#pragma pack(pop)\n"
        return s


class Gen:
    def __init__(self, rng, bitfields=True, attrs=True, nested=True, arrays=True, unions=True, portable=False):
        self.r = rng
        self.portable = portable   # only types that exist with the same spelling on 32-bit and MSVC targets
        self.cfg = dict(bitfields=bitfields, attrs=attrs, nested=nested, arrays=arrays, unions=unions)
        self.recs = []

    def member_type(self, rec):
        r = self.r
        x = r.random()
        if x < 0.65 or not self.recs:
            t = r.choice(SCALARS)[0]
            while self.portable and t == "__int128":
                t = r.choice(SCALARS)[0]
            return t
        if self.cfg["nested"]:
            o = r.choice(self.recs)
            rec.features.add("nested")
            # irregular features of a nested record are inherited (its layout is part of ours)
            rec.features |= {f for f in o.features if f not in ("nested", "array")}
            return "%s %s" % (o.kind, o.name)
        return "int"

    def record(self, idx):
        r = self.r
        rec = Rec("R%d" % idx, "union" if (self.cfg["unions"] and r.random() < 0.12) else "struct")
        n = r.choice([1, 2, 2, 3, 3, 4, 5, 7])
        i = 0
        while i < n:
            x = r.random()
            if self.cfg["bitfields"] and x < 0.22:
                # a run of bit-fields
                rec.features.add("bitfield")
                for _ in range(r.choice([1, 2, 3, 4])):
                    base = r.choice(BF_BASES + (["u64a4", "i64a2"] if self.cfg["attrs"] and not self.portable else []))
                    while self.portable and base == "long":
                        base = r.choice(BF_BASES)
                    if base in ("u64a4", "i64a2"):
                        rec.features.add("member-aligned")
                    maxw = 64 if base in ("u64a4", "i64a2") else {"char": 8, "unsigned char": 8, "short": 16, "unsigned short": 16, "int": 32, "unsigned": 32, "long": 64, "unsigned long long": 64, "_Bool": 1}[base]
                    y = r.random()
                    if y < 0.08:
                        rec.members.append({"name": None, "decl": "%s : 0" % base, "bitfield": (base, 0), "anon": True})
                    elif y < 0.16:
                        w = r.randrange(1, maxw + 1)
                        rec.members.append({"name": None, "decl": "%s : %d" % (base, w), "bitfield": (base, w), "anon": True})
                    else:
                        w = r.choice([1, 1, 2, 3, 5, 7, 8, 9, 15, 17, 31, 33, 63, maxw])
                        w = max(1, min(w, maxw))
                        nm = "m%d" % i
                        rec.members.append({"name": nm, "decl": "%s %s : %d" % (base, nm, w), "bitfield": (base, w), "anon": False})
                        i += 1
                continue
            t = self.member_type(rec)
            nm = "m%d" % i
            decl = "%s %s" % (t, nm)
            if self.cfg["arrays"] and r.random() < 0.2:
                dims = "".join("[%d]" % r.choice([1, 2, 3, 5, 0 if False else 4]) for _ in range(r.choice([1, 1, 2])))
                decl += dims
                rec.features.add("array")
            if self.cfg["attrs"] and r.random() < 0.08:
                a = r.choice([2, 4, 8, 16, 32, 64])
                decl += " __attribute__((aligned(%d)))" % a
                rec.features.add("member-aligned")
            rec.members.append({"name": nm, "decl": decl, "bitfield": None, "anon": False})
            i += 1
        if self.cfg["attrs"]:
            x = r.random()
            if x < 0.12:
                rec.attrs = "__attribute__((packed))"
                rec.features.add("packed")
            elif x < 0.2:
                rec.attrs = "__attribute__((aligned(%d)))" % r.choice([2, 4, 8, 16, 32, 64])
                rec.features.add("type-aligned")
            elif x < 0.24:
                rec.attrs = "__attribute__((packed, aligned(%d)))" % r.choice([2, 4, 8])
                rec.features.add("packed")
                rec.features.add("type-aligned")
            elif x < 0.34:
                rec.pragma_pack = r.choice([1, 2, 4, 8])
                rec.features.add("pragma-pack")
        if self.cfg["bitfields"] and rec.kind == "struct" and r.random() < 0.15:
            # a trailing zero-width bit-field rounds the size up to its type's alignment without raising the record's
            zb = r.choice(["int", "long", "short"])
            rec.members.append({"name": None, "decl": "%s : 0" % zb, "bitfield": (zb, 0), "anon": True})
            rec.features.add("bitfield")
            rec.features.add("trailing-zero-width")
        if self.cfg["arrays"] and rec.kind == "struct" and r.random() < 0.04 and rec.members and not rec.members[-1]["bitfield"]:
            rec.members.append({"name": "fam", "decl": "int fam[]", "bitfield": None, "anon": False, "fam": True})
            rec.features.add("flexible-array")
        self.recs.append(rec)
        return rec

    def prelude(self):
        return PRELUDE_ATTR if self.cfg["attrs"] and not self.portable else ""

    def header(self, n):
        for i in range(n):
            self.record(i)
        return self.prelude() + "\n".join(r.text() for r in self.recs)


def c_probe(header_path, recs, tmp, tag, extra_flags=()):
    """sizeof / _Alignof / offsetof from clang, per record; bit-fields skipped (offsetof is ill-formed on them)"""
    src = os.path.join(tmp, "cp_%s.c" % tag)
    with open(src, "w") as f:
        f.write('#include <stdio.h>\n#include <stddef.h>\n#include "%s"\nint main(void) {\n' % os.path.basename(header_path))
        for rec in recs:
            t = "%s %s" % (rec.kind, rec.name)
            f.write('  printf("%s %%zu %%zu", sizeof(%s), _Alignof(%s));\n' % (rec.name, t, t))
            for m in rec.members:
                if m["name"] and not m["bitfield"]:
                    f.write('  printf(" %s=%%zu", offsetof(%s, %s));\n' % (m["name"], t, m["name"]))
            f.write('  printf("\\n");\n')
        f.write("  return 0; }\n")
    exe = os.path.join(tmp, "cp_%s" % tag)
    rc, o, e = sh2(["clang", "-std=gnu11", "-w", "-o", exe, src] + list(extra_flags), cwd=tmp, timeout=300)
    if rc != 0:
        return None, e
    rc, o, e = sh2([exe], timeout=60)
    return parse_numbers(o), ""


def parse_numbers(text):
    res = {}
    for line in text.splitlines():
        p = line.split()
        if len(p) < 3:
            continue
        res[p[0]] = {"size": int(p[1]), "align": int(p[2]), "offsets": {kv.split("=")[0]: int(kv.split("=")[1]) for kv in p[3:]}}
    return res


def rust_probe(bindings, recs, tmp, tag, edition="2021"):
    """size_of / align_of / offset_of! measured by rustc on the emitted bindings (None if they do not compile)"""
    src = os.path.join(tmp, "rp_%s.rs" % tag)
    defined = set(re.findall(r"pub (?:struct|union) (\w+)", bindings))
    with open(src, "w") as f:
        f.write("#![allow(warnings)]\n" + bindings + "\n" + ("use root::*;\n" if re.search(r"pub mod root\s*\{", bindings) else "") + "fn main() {\n")
        for rec in recs:
            if rec.name not in defined:
                continue
            f.write('    print!("%s {} {}", ::std::mem::size_of::<%s>(), ::std::mem::align_of::<%s>());\n' % (rec.name, rec.name, rec.name))
            fields = set(re.findall(r"pub (\w+)\s*:", struct_body(bindings, rec.name)))
            for m in rec.members:
                if m["name"] and not m["bitfield"] and m["name"] in fields:
                    f.write('    print!(" %s={}", ::std::mem::offset_of!(%s, %s));\n' % (m["name"], rec.name, m["name"]))
            f.write("    println!();\n")
        f.write("}\n")
    exe = os.path.join(tmp, "rp_%s" % tag)
    rc, o, e = sh2(["rustc", "--edition", edition, "-A", "warnings", "-o", exe, src], cwd=tmp, timeout=600)
    if rc != 0:
        return None, e
    rc, o, e = sh2([exe], timeout=60)
    return parse_numbers(o), ""


def struct_body(bindings, name):
    m = re.search(r"pub (?:struct|union) %s\b[^{;]*\{" % re.escape(name), bindings)
    if not m:
        return ""
    i = m.end()
    depth = 1
    j = i
    while j < len(bindings) and depth:
        if bindings[j] == "{":
            depth += 1
        elif bindings[j] == "}":
            depth -= 1
        j += 1
    return bindings[i:j]


def rustc_errors(stderr, limit=3):
    return re.findall(r"^error(?:\[E\d+\])?: .*$", stderr, re.M)[:limit]
