# Generator of C libraries for the C04 call-compatibility experiment.
#   lib.h  declarations (what bindgen sees)      lib.c   definitions: every function folds its arguments into a hash,
#   cmain.c a C caller                            main.rs the same calls through the bindings
# Both callers print one line per call (the callee's hash as stored in the global `last_h`, and a fold of the returned
# value); the two transcripts must be identical.  Every function starts its hash from its own constant, so binding the
# wrong symbol shows.  Values are chosen by the generator and written as literals in both languages.
import re

KEYWORDS = ["type", "match", "fn", "loop", "self", "Self", "crate", "super", "async", "try", "dyn", "box", "impl", "in", "let", "mod", "move",
            "mut", "pub", "ref", "trait", "unsafe", "use", "where", "yield", "abstract", "become", "final", "macro", "override", "priv",
            "unsized", "virtual", "gen", "await", "as", "str", "bool_", "u8", "i32", "f64", "usize", "_"]
MANGLED = {"abstract", "alignof", "as", "async", "await", "become", "box", "break", "const", "continue", "crate", "do", "dyn", "else", "enum", "extern",
           "false", "final", "fn", "for", "gen", "if", "impl", "in", "let", "loop", "macro", "match", "mod", "move", "mut", "offsetof", "override", "priv",
           "proc", "pub", "pure", "ref", "return", "Self", "self", "sizeof", "static", "struct", "super", "trait", "true", "try", "type", "typeof", "unsafe",
           "unsized", "use", "virtual", "where", "while", "yield", "str", "bool", "f32", "f64", "usize", "isize", "u128", "i128", "u64", "i64", "u32", "i32",
           "u16", "i16", "u8", "i8", "_"}


def rust_name(c):
    """BindgenContext::rust_mangle, transcribed (spec side: which Rust identifier a C name gets)"""
    if "@" in c or "?" in c or "$" in c or c in MANGLED:
        return c.replace("@", "_").replace("?", "_").replace("$", "_") + "_"
    return c


# ------------------------------------------------------------------ types
class Ty:
    pass


class Sc(Ty):
    """scalar: kind in i (signed int), u (unsigned int), f32, f64, bool"""
    def __init__(self, spell, kind, bits):
        self.spell, self.kind, self.bits = spell, kind, bits

    def decl(self, n):
        return ("%s %s" % (self.spell, n)).strip()

    def rs(self, o):
        return None


SCALARS = [Sc("_Bool", "bool", 1), Sc("char", "i", 8), Sc("signed char", "i", 8), Sc("unsigned char", "u", 8), Sc("short", "i", 16), Sc("unsigned short", "u", 16),
           Sc("int", "i", 32), Sc("unsigned int", "u", 32), Sc("long", "i", 64), Sc("unsigned long", "u", 64), Sc("long long", "i", 64), Sc("unsigned long long", "u", 64),
           Sc("float", "f32", 32), Sc("double", "f64", 64), Sc("__int128", "i", 128), Sc("unsigned __int128", "u", 128),
           Sc("int8_t", "i", 8), Sc("uint16_t", "u", 16), Sc("int32_t", "i", 32), Sc("uint64_t", "u", 64), Sc("size_t", "u", 64), Sc("ssize_t", "i", 64),
           Sc("intptr_t", "i", 64), Sc("wchar_t", "i", 32)]
INT = [s for s in SCALARS if s.kind in "iu"]
S_INT, S_DOUBLE, S_UCHAR, S_LONG = SCALARS[6], SCALARS[13], SCALARS[3], SCALARS[8]


class En(Ty):
    def __init__(self, name, consts, signed):
        self.name, self.consts, self.signed = name, consts, signed
        self.kind, self.bits = ("i" if signed else "u"), 32

    def decl(self, n):
        return ("enum %s %s" % (self.name, n)).strip()

    def text(self):
        return "enum %s { %s };\n" % (self.name, ", ".join("%s = %s" % (k, ("%du" % v if v > 0x7fffffff else "%d" % v)) for k, v in self.consts))


class Td(Ty):
    def __init__(self, name, target):
        self.name, self.target = name, target

    def decl(self, n):
        return ("%s %s" % (self.name, n)).strip()

    def text(self):
        return "typedef %s;\n" % self.target.decl(self.name)


class Ptr(Ty):
    def __init__(self, target, const):   # target: Ty or None (void)
        self.target, self.const = target, const

    def decl(self, n):
        inner = "*" + n
        if isinstance(self.target, (Arr, Fn)):
            inner = "(" + inner + ")"
        base = self.target.decl(inner) if self.target is not None else "void " + inner
        return ("const " + base) if self.const else base


class Arr(Ty):
    def __init__(self, elem, n):
        self.elem, self.n = elem, n

    def decl(self, n):
        return self.elem.decl("%s[%s]" % (n, self.n if self.n is not None else ""))


class Rec(Ty):
    def __init__(self, kind, name, members):
        self.rkind, self.name, self.members = kind, name, members   # members: [(name, Ty)]

    def decl(self, n):
        return ("%s %s %s" % (self.rkind, self.name, n)).strip()

    def text(self):
        return "%s %s {\n%s};\n" % (self.rkind, self.name, "".join("  %s;\n" % t.decl(m) for m, t in self.members))

    def rs_name(self, o):
        return ("%s_%s" % (self.rkind, self.name)) if o.get("c_naming") else self.name


class Fn(Ty):
    """function type (only behind a pointer); proto = index into CALLBACKS"""
    def __init__(self, proto):
        self.proto = proto

    def decl(self, n):
        ret, args = CALLBACKS[self.proto][:2]
        return "%s %s(%s)" % (ret, n, args)


# fixed callback prototypes: (C return, C parameter list, Rust definition, C definition body, call expression args, result kind)
CALLBACKS = [
    ("int", "int", "unsafe extern \"C\" fn cb0(a: ::std::os::raw::c_int) -> ::std::os::raw::c_int { a.wrapping_mul(3).wrapping_add(1) }",
     "static int cb0(int a) { return (int)((unsigned)a * 3u + 1u); }", "41", "i"),
    ("void", "void", "unsafe extern \"C\" fn cb1() { CB_COUNT = CB_COUNT.wrapping_add(7); }", "static void cb1(void) { cb_count += 7; }", "", None),
    ("double", "double, int", "unsafe extern \"C\" fn cb2(a: f64, b: ::std::os::raw::c_int) -> f64 { a * 0.5 + (b as f64) }",
     "static double cb2(double a, int b) { return a * 0.5 + (double)b; }", "10.5, -3", "f64"),
    ("long", "const char *", "unsafe extern \"C\" fn cb3(s: *const ::std::os::raw::c_char) -> ::std::os::raw::c_long { let mut n = 0; let mut p = s; while *p != 0 { n += *p as ::std::os::raw::c_long; p = p.add(1); } n }",
     "static long cb3(const char *s) { long n = 0; while (*s) n += *s++; return n; }", "\"bindgen\"", "i"),
    ("unsigned char", "struct cbarg", "unsafe extern \"C\" fn cb4(s: cbarg) -> ::std::os::raw::c_uchar { (s.a as i64 + s.b as i64 * 3) as ::std::os::raw::c_uchar }",
     "static unsigned char cb4(struct cbarg s) { return (unsigned char)((long long)s.a + (long long)s.b * 3); }", "(struct cbarg){ 5, 9.0 }", "u"),
]


# ------------------------------------------------------------------ values
def scalar_value(r, t):
    if t.kind == "bool":
        return r.choice([0, 1])
    if isinstance(t, En):
        return r.choice(t.consts)[1]
    if t.kind == "i":
        b = t.bits
        return r.choice([0, 1, -1, -(1 << (b - 1)), (1 << (b - 1)) - 1, r.randrange(-(1 << (b - 1)), 1 << (b - 1)), r.randrange(-100, 100)])
    if t.kind == "u":
        b = t.bits
        return r.choice([0, 1, (1 << b) - 1, 1 << (b - 1), r.randrange(0, 1 << b), r.randrange(0, 200)])
    return r.randrange(-(1 << 20), 1 << 20) / 8.0


def c_lit(t, v):
    if t.kind == "bool":
        return "1" if v else "0"
    if t.kind in ("f32", "f64"):
        return "(%s)%r" % (t.spell, v)
    if t.bits == 128 or abs(v) >= (1 << 63):
        if -(1 << 63) <= v < (1 << 64) and t.bits != 128:
            return "%dULL" % v if v >= 0 else "(-%dLL-1)" % (-(v + 1))
        u = v & ((1 << 128) - 1)
        return "(%s)(((unsigned __int128)0x%xULL << 64) | 0x%xULL)" % (t.decl(""), u >> 64, u & ((1 << 64) - 1))
    if v == -(1 << 63):
        return "(-9223372036854775807LL-1)"
    if v < 0:
        return "(%dLL)" % v
    return "%dULL" % v if v >= (1 << 63) else "%dLL" % v


def rs_lit(t, v):
    if t.kind == "bool":
        return "true" if v else "false"
    if t.kind in ("f32", "f64"):
        return "(%rf64) as _" % v
    if t.bits == 128:
        return ("(%di128) as _" % v) if v < (1 << 127) else ("(%du128) as _" % v)
    return ("(%di64) as _" % v) if v < (1 << 63) else ("(%du64) as _" % v)


class Emit:
    """per-language statement emitters for building, folding and declaring"""
    def __init__(self, o):
        self.o = o
        self.tmp = 0

    # ---- set `lv` (an lvalue of type t, already zero-initialised) to a value; returns statements for (C, Rust)
    def build(self, r, lv_c, lv_rs, t):
        while isinstance(t, Td):
            t = t.target
        if isinstance(t, (Sc, En)):
            v = scalar_value(r, t)
            return ["%s = %s;" % (lv_c, c_lit(t, v))], ["%s = %s;" % (lv_rs, rs_lit(t, v))]
        if isinstance(t, Arr):
            c, rs = [], []
            for i in range(t.n):
                a, b = self.build(r, "%s[%d]" % (lv_c, i), "%s[%d]" % (lv_rs, i), t.elem)
                c += a
                rs += b
            return c, rs
        if isinstance(t, Rec):
            c, rs = [], []
            ms = t.members if t.rkind == "struct" else [r.choice(t.members)]
            for m, mt in ms:
                a, b = self.build(r, "%s.%s" % (lv_c, m), "%s.%s" % (lv_rs, rust_name(m)), mt)
                c += a
                rs += b
            return c, rs
        if isinstance(t, Ptr):
            # pointer members: null or the address of the shared anchor
            if r.random() < 0.5:
                return ["%s = 0;" % lv_c], ["%s = ::std::ptr::null_mut::<u8>() as _;" % lv_rs]
            return ["%s = (void *)&anchor;" % lv_c], ["%s = ::std::ptr::addr_of_mut!(anchor) as _;" % lv_rs]
        raise ValueError(t)

    # ---- fold the value of expression e (type t) into h
    def fold(self, e_c, e_rs, t, union_all=True):
        while isinstance(t, Td):
            t = t.target
        if isinstance(t, (Sc, En)):
            if t.kind == "f32":
                return ["{ uint32_t b_; float v_ = %s; memcpy(&b_, &v_, 4); F(b_); }" % e_c], ["F!(h, (%s).to_bits());" % e_rs]
            if t.kind == "f64":
                return ["{ uint64_t b_; double v_ = %s; memcpy(&b_, &v_, 8); F(b_); }" % e_c], ["F!(h, (%s).to_bits());" % e_rs]
            if t.bits == 128:
                return ["F(%s); F((unsigned __int128)(%s) >> 64);" % (e_c, e_c)], ["F!(h, %s); F!(h, ((%s) as u128) >> 64);" % (e_rs, e_rs)]
            return ["F(%s);" % e_c], ["F!(h, %s);" % e_rs]
        if isinstance(t, Arr):
            c, rs = [], []
            for i in range(t.n):
                a, b = self.fold("%s[%d]" % (e_c, i), "%s[%d]" % (e_rs, i), t.elem)
                c += a
                rs += b
            return c, rs
        if isinstance(t, Rec):
            c, rs = [], []
            for m, mt in t.members:
                if t.rkind == "union" and isinstance(mt, Ptr):
                    continue
                a, b = self.fold("(%s).%s" % (e_c, m), "(%s).%s" % (e_rs, rust_name(m)), mt)
                c += a
                rs += b
            return c, rs
        if isinstance(t, Ptr):
            return ["F((void *)(%s) == (void *)&anchor ? 2 : ((%s) != 0));" % (e_c, e_c)], \
                   ["F!(h, if (%s) as usize == ::std::ptr::addr_of!(anchor) as usize { 2 } else { ((%s) as usize != 0) as u64 });" % (e_rs, e_rs)]
        raise ValueError(t)


def contains_bool_or_ptr(t):
    while isinstance(t, Td):
        t = t.target
    if isinstance(t, Sc):
        return t.kind == "bool"
    if isinstance(t, Ptr):
        return True
    if isinstance(t, Arr):
        return contains_bool_or_ptr(t.elem)
    if isinstance(t, Rec):
        return any(contains_bool_or_ptr(mt) for _, mt in t.members)
    return False


# ------------------------------------------------------------------ library
class Lib:
    def __init__(self, r, nfuncs, o=None, special_names=True, aggregates=True, exotic=False):
        self.r, self.o = r, (o or {})
        self.types_text = ["struct cbarg { int a; double b; };\n"] + ["typedef %s cbfn%d(%s);\ntypedef %s (*cbptr%d)(%s);\n" % (cb[0], k, cb[1], cb[0], k, cb[1]) for k, cb in enumerate(CALLBACKS)]
        self.recs, self.enums, self.tds = [], [], []
        self.funcs = []      # dicts
        self.globals = []
        self.special = special_names
        self.aggregates = aggregates
        self.make_types()
        self.names_used = set()
        for i in range(nfuncs):
            self.funcs.append(self.func(i))
        self.make_globals()

    # ---- type graph
    def make_types(self):
        r = self.r
        for i in range(r.choice([1, 2])):
            signed = r.random() < 0.6
            cs = [("E%d_A" % i, 0), ("E%d_B" % i, 5)] + ([("E%d_N" % i, -7)] if signed else [("E%d_BIG" % i, 0xFFFFFFF0)])
            e = En("E%d" % i, cs, signed)
            self.enums.append(e)
            self.types_text.append(e.text())
        for i in range(r.choice([1, 2, 3])):
            t = Td("td%d_t" % i, r.choice(SCALARS + self.enums))
            self.tds.append(t)
            self.types_text.append(t.text())
        if not self.aggregates:
            return
        for i in range(r.choice([2, 3, 4, 5])):
            kind = "union" if r.random() < 0.2 else "struct"
            ms = []
            # by-value aggregates of 1..64 bytes crossing the SysV eightbyte classes: all-float, all-int, mixed, > 16 bytes
            shape = r.choice(["ints", "floats", "mixed", "mixed", "bytes", "big", "nested"])
            n = r.choice([1, 2, 2, 3, 4])
            for k in range(n):
                if shape == "ints":
                    t = r.choice(INT[:12])
                elif shape == "floats":
                    t = r.choice([SCALARS[12], SCALARS[13]])
                elif shape == "bytes":
                    t = Arr(r.choice([SCALARS[1], SCALARS[3]]), r.choice([1, 2, 3, 5, 7]))
                elif shape == "big":
                    t = r.choice([Arr(S_LONG, r.choice([2, 3, 4])), Arr(S_DOUBLE, r.choice([2, 3])), S_INT])
                elif shape == "nested" and self.recs:
                    t = r.choice(self.recs + [S_INT, SCALARS[12]])
                else:
                    t = r.choice(SCALARS[1:14] + self.enums + self.tds + [Ptr(None, False), Ptr(S_INT, True)])
                if kind == "union" and contains_bool_or_ptr(t):
                    t = S_INT
                # keep keyword member names out of the way (C01 territory) but use a few Rust-keyword-like ones
                ms.append(("m%d" % k, t))
            rec = Rec(kind, "S%d" % i, ms)
            self.recs.append(rec)
            self.types_text.append(rec.text())

    def value_type(self, allow_rec=True):
        r = self.r
        x = r.random()
        if x < 0.5 or not (self.recs and allow_rec):
            return r.choice(SCALARS + self.enums + self.tds)
        return r.choice(self.recs)

    def param(self, i):
        """returns dict(kind, ty, ...) describing a parameter"""
        r = self.r
        x = r.random()
        if x < 0.45:
            return {"k": "value", "ty": self.value_type()}
        if x < 0.62:
            t = r.choice(SCALARS[1:14] + self.enums + (self.recs or [S_INT]))
            return {"k": "ptr", "ty": Ptr(t, r.random() < 0.5), "null": r.random() < 0.15}
        if x < 0.68:
            return {"k": "voidptr", "ty": Ptr(None, r.random() < 0.5), "null": r.random() < 0.2}
        if x < 0.74:
            return {"k": "str", "ty": Ptr(SCALARS[1], True), "text": r.choice(["", "a", "bindgen", "hello world", "\\x7f\\x01"])}
        if x < 0.84:
            t = r.choice(SCALARS[1:14])
            n = r.choice([1, 2, 4, 7])
            const = r.random() < 0.4
            return {"k": "array", "ty": Arr(t, r.choice([n, None])), "n": n, "const": const}
        if x < 0.88:
            return {"k": "array2", "ty": Arr(Arr(S_INT, 3), 2)}
        if x < 0.97:
            return {"k": "fnptr", "proto": r.randrange(len(CALLBACKS)), "null": r.random() < 0.2, "form": r.choice(["inline", "inline", "fn-typedef", "ptr-typedef"])}
        return {"k": "ptrptr", "ty": Ptr(Ptr(S_INT, False), False)}

    def fresh_name(self, i):
        r = self.r
        if self.special and r.random() < 0.3:
            for _ in range(10):
                n = r.choice(KEYWORDS + ["a$b%d" % i, "_lead%d" % i, "__dunder%d" % i, "trail%d_" % i, "x%d$" % i, "$%d" % i])
                if n not in self.names_used and rust_name(n) not in {rust_name(u) for u in self.names_used} and n not in ("bool_",):
                    self.names_used.add(n)
                    return n
        n = "f%d" % i
        self.names_used.add(n)
        return n

    def func(self, i):
        r = self.r
        name = self.fresh_name(i)
        f = {"name": name, "id": i, "seed": r.getrandbits(60) | 1, "params": [self.param(k) for k in range(r.choice([0, 1, 1, 2, 2, 3, 4, 6, 9]))]}
        x = r.random()
        if x < 0.15:
            f["ret"] = None
        elif x < 0.85:
            f["ret"] = self.value_type()
        else:
            f["ret"] = "ptr"      # returns a pointer to the global slot
        f["variadic"] = r.random() < 0.08
        fp0 = [k for k, p in enumerate(f["params"]) if p["k"] == "fnptr" and p["proto"] == 0]
        if fp0 and not f["variadic"] and r.random() < 0.5:
            f["ret"] = ("fnret", fp0[0], r.choice(["fn-typedef", "ptr-typedef"]))
        f["asm"] = None
        if self.special and r.random() < 0.12:
            f["asm"] = r.choice(["_%s" % re.sub(r"\W", "x", name), "renamed_%d" % i, "%s_" % re.sub(r"\W", "x", name)])
            if f["asm"] == rust_name(name):
                f["asm"] = "renamed_%d" % i      # (a label equal to the Rust name is the documented corner covered by a fixed case)
        if f["variadic"]:
            f["params"] = [{"k": "value", "ty": S_INT}] + [p for p in f["params"][:2] if p["k"] == "value" and isinstance(p["ty"], (Sc, En))]
            f["va"] = [r.choice(["i", "l", "d", "p"]) for _ in range(r.choice([0, 1, 3, 5]))]
        return f

    def make_globals(self):
        r = self.r
        for i in range(r.choice([2, 3, 5])):
            t = r.choice(SCALARS[1:14] + self.enums + self.tds + (self.recs or []) + [Arr(S_INT, 3)])
            nm = r.choice(["g%d" % i, "type" if "type" not in self.names_used else "g%d" % i, "g$%d" % i, "_g%d" % i]) if self.special else "g%d" % i
            self.names_used.add(nm)
            self.globals.append({"name": nm, "ty": t, "const": r.random() < 0.35, "asm": ("_%s" % re.sub(r"\W", "x", nm)) if (self.special and r.random() < 0.15) else None})

    # ---- C parameter declaration
    def pdecl(self, p, n):
        if p["k"] == "fnptr":
            if p.get("form") == "fn-typedef":
                return "cbfn%d *%s" % (p["proto"], n)      # pointer to a typedef'd FUNCTION type
            if p.get("form") == "ptr-typedef":
                return "cbptr%d %s" % (p["proto"], n)
            return Ptr(Fn(p["proto"]), False).decl(n)
        if p["k"] in ("array",):
            d = p["ty"].decl(n)
            return ("const " + d) if p["const"] else d
        return p["ty"].decl(n)

    def proto(self, f, with_names=True):
        ps = [self.pdecl(p, "p%d" % k if with_names else "") for k, p in enumerate(f["params"])]
        if f["variadic"]:
            ps.append("...")
        if isinstance(f["ret"], tuple):
            ret = "cbfn0 *" if f["ret"][2] == "fn-typedef" else "cbptr0"
        else:
            ret = "void" if f["ret"] is None else ("int *" if f["ret"] == "ptr" else f["ret"].decl(""))
        s = "%s %s(%s)" % (ret, f["name"], ", ".join(ps) if ps else "void")
        return s

    def header(self):
        s = "#include <stdint.h>\n#include <stddef.h>\n#include <sys/types.h>\n#include <wchar.h>\n" + "".join(self.types_text)
        s += "extern uint64_t last_h;\nextern int anchor;\nextern int ret_slot;\n"
        for g in self.globals:
            s += "extern %s%s%s;\n" % ("const " if g["const"] else "", g["ty"].decl(g["name"]), (' __asm__("%s")' % g["asm"]) if g["asm"] else "")
        s += "uint64_t fold_globals(void);\n"
        for f in self.funcs:
            s += "%s%s;\n" % (self.proto(f), (' __asm__("%s")' % f["asm"]) if f["asm"] else "")
        s += "_Noreturn void finish(int code);\n"
        return s

    # ---- lib.c
    def lib_c(self):
        em = Emit(self.o)
        s = '#include "lib.h"\n#include <string.h>\n#include <stdarg.h>\n#include <stdio.h>\n#include <stdlib.h>\n'
        s += "#define F(v) do { h = (h ^ (uint64_t)(v)) * 1099511628211ULL; } while (0)\n"
        s += "uint64_t last_h; int anchor = 77; int ret_slot;\n"
        gr = __import__("random").Random(self.r.getrandbits(32))
        for g in self.globals:
            s += "%s%s;\n" % ("const " if g["const"] else "", g["ty"].decl(g["name"]) + " = " + self.c_init(gr, g["ty"]))
        s += "uint64_t fold_globals(void) { uint64_t h = 1469598103934665603ULL;\n"
        for g in self.globals:
            s += "  " + " ".join(em.fold(g["name"], "", g["ty"])[0]) + "\n"
        s += "  return h; }\n"
        for f in self.funcs:
            s += self.proto(f) + " {\n  uint64_t h = %dULL;\n" % f["seed"]
            for k, p in enumerate(f["params"]):
                s += "  " + " ".join(self.callee_fold(em, p, "p%d" % k)) + "\n"
            if f["variadic"]:
                s += "  { va_list ap; va_start(ap, p%d);\n" % (len(f["params"]) - 1)
                for c in f["va"]:
                    s += {"i": "    F(va_arg(ap, int));\n", "l": "    F(va_arg(ap, long));\n",
                          "d": "    { double v_ = va_arg(ap, double); uint64_t b_; memcpy(&b_, &v_, 8); F(b_); }\n",
                          "p": "    F(va_arg(ap, void *) == (void *)&anchor ? 2 : 0);\n"}[c]
                s += "    va_end(ap); }\n"
            s += "  last_h = h;\n"
            if isinstance(f["ret"], tuple):
                s += "  return p%d;\n" % f["ret"][1]
            elif f["ret"] == "ptr":
                s += "  ret_slot = (int)(h >> 7); return &ret_slot;\n"
            elif f["ret"] is not None:
                s += "  { %s; memset(&r_, 0, sizeof r_);\n" % f["ret"].decl("r_")
                s += "".join("    %s\n" % l for l in self.ret_build("r_", f["ret"], [0]))
                s += "    return r_; }\n"
            s += "}\n"
        s += '_Noreturn void finish(int code) { printf("finish %d\\n", code); fflush(stdout); exit(code & 63); }\n'
        return s

    def c_init(self, gr, t):
        while isinstance(t, Td):
            t = t.target
        if isinstance(t, (Sc, En)):
            return c_lit(t, scalar_value(gr, t))
        if isinstance(t, Arr):
            return "{ " + ", ".join(self.c_init(gr, t.elem) for _ in range(t.n)) + " }"
        if isinstance(t, Rec):
            ms = t.members if t.rkind == "struct" else t.members[:1]
            return "{ " + ", ".join(".%s = %s" % (m, self.c_init(gr, mt)) for m, mt in ms) + " }"
        if isinstance(t, Ptr):
            return "0"
        raise ValueError(t)

    def ret_build(self, lv, t, k):
        """statements setting lv from h (callee side); k is a one-element shift counter"""
        while isinstance(t, Td):
            t = t.target
        if isinstance(t, (Sc, En)):
            k[0] += 3
            if t.kind == "bool":
                return ["%s = (h >> %d) & 1;" % (lv, k[0] % 40)]
            if isinstance(t, En):
                return ["%s = (enum %s)%s;" % (lv, t.name, t.consts[k[0] % len(t.consts)][0])]
            if t.kind in ("f32", "f64"):
                return ["%s = (%s)((double)(int64_t)((h >> %d) %% 4096) - 2048.0) / 8;" % (lv, t.spell, k[0] % 40)]
            return ["%s = (%s)(h >> %d);" % (lv, t.decl(""), k[0] % 40)]
        if isinstance(t, Arr):
            out = []
            for i in range(t.n):
                out += self.ret_build("%s[%d]" % (lv, i), t.elem, k)
            return out
        if isinstance(t, Rec):
            out = []
            for m, mt in (t.members if t.rkind == "struct" else t.members[:1]):
                out += self.ret_build("%s.%s" % (lv, m), mt, k)
            return out
        if isinstance(t, Ptr):
            k[0] += 1
            return ["%s = (h >> %d) & 1 ? (void *)&anchor : 0;" % (lv, k[0] % 40)]
        raise ValueError(t)

    def callee_fold(self, em, p, n):
        k = p["k"]
        if k == "value":
            return em.fold(n, "", p["ty"])[0]
        if k == "ptr":
            return ["if (%s) {" % n] + em.fold("(*%s)" % n, "", p["ty"].target)[0] + ["} else F(0);"]
        if k == "voidptr":
            return ["F(%s ? *(const unsigned char *)%s : 256);" % (n, n)]
        if k == "str":
            return ["{ const char *s_ = %s; F(strlen(s_)); while (*s_) F(*s_++); }" % n]
        if k == "array":
            return sum((em.fold("%s[%d]" % (n, i), "", p["ty"].elem)[0] for i in range(p["n"])), [])
        if k == "array2":
            return ["F(%s[%d][%d]);" % (n, i, j) for i in range(2) for j in range(3)]
        if k == "ptrptr":
            return ["F(%s && *%s ? **%s : -1);" % (n, n, n)]
        if k == "fnptr":
            ret, args, _, _, call, kind = CALLBACKS[p["proto"]]
            if kind is None:
                return ["if (%s) { %s(%s); F(1); } else F(0);" % (n, n, call)]
            if kind == "f64":
                return ["if (%s) { double v_ = %s(%s); uint64_t b_; memcpy(&b_, &v_, 8); F(b_); } else F(0);" % (n, n, call)]
            return ["if (%s) F(%s(%s)); else F(0);" % (n, n, call)]
        raise ValueError(k)

    # ---- the two callers
    def callers(self, ncalls):
        r = self.r
        em = Emit(self.o)
        o = self.o
        c = '#include "lib.h"\n#include <stdio.h>\n#include <string.h>\n#include <inttypes.h>\n#define F(v) do { h = (h ^ (uint64_t)(v)) * 1099511628211ULL; } while (0)\nstatic int cb_count;\n'
        c += "".join(cb[3] + "\n" for cb in CALLBACKS)
        c += "int main(void) {\n"
        rs = "#![allow(warnings)]\ninclude!(\"bindings.rs\");\n"
        rs += "macro_rules! F { ($h:ident, $v:expr) => { $h = ($h ^ (($v) as u64)).wrapping_mul(1099511628211u64); } }\nstatic mut CB_COUNT: ::std::os::raw::c_int = 0;\n"
        rs += "".join(cb[2] + "\n" for cb in CALLBACKS)
        rs += "unsafe fn set<T: Copy>(p: *mut T, i: usize, v: T) { *p.add(i) = v; }\nunsafe fn get<T: Copy>(p: *const T, i: usize) -> T { *p.add(i) }\n"
        rs += "#[repr(C, align(16))] struct Buf([u8; 512]);\n"
        rs += "fn main() { unsafe {\n"
        # globals first: read everything, write the mutable ones, let C fold them
        c += "  { uint64_t h = 7;\n"
        rs += "  { let mut h: u64 = 7;\n"
        for g in self.globals:
            a, b = em.fold(g["name"], rust_name(g["name"]), g["ty"])
            c += "    " + " ".join(a) + "\n"
            rs += "    " + " ".join(b) + "\n"
        c += '    printf("globals %016" PRIx64 "\\n", h); }\n'
        rs += '    println!("globals {:016x}", h); }\n'
        for g in self.globals:
            if g["const"]:
                continue
            a, b = em.build(r, g["name"], rust_name(g["name"]), g["ty"])
            c += "".join("  %s\n" % x for x in a)
            rs += "".join("  %s\n" % x for x in b)
        c += '  printf("globals-after %016" PRIx64 "\\n", fold_globals());\n'
        rs += '  println!("globals-after {:016x}", fold_globals());\n'
        for ci in range(ncalls):
            f = r.choice(self.funcs)
            a, b = self.call(em, f, ci)
            c += a
            rs += b
        c += '  printf("cb_count %%d\\n", cb_count);\n  finish(%d);\n}\n' % (ncalls + 3)
        rs += '  println!("cb_count {}", CB_COUNT);\n  finish(%d);\n} }\n' % (ncalls + 3)
        return c, rs

    def call(self, em, f, ci):
        r = self.r
        o = self.o
        c = "  { /* call %d: %s */\n" % (ci, f["name"])
        rs = "  { // call %d: %s\n" % (ci, f["name"])
        cargs, rargs = [], []
        post_c, post_rs = [], []
        for k, p in enumerate(f["params"]):
            v = "a%d" % k
            kind = p["k"]
            if kind == "value":
                t = p["ty"]
                c += "    %s; memset(&%s, 0, sizeof %s);\n" % (t.decl(v), v, v)
                bt = t
                while isinstance(bt, Td):
                    bt = bt.target
                if isinstance(bt, Rec):
                    rs += "    let mut %s: %s = ::std::mem::zeroed();\n" % (v, bt.rs_name(o))
                    a, b = em.build(r, v, v, t)
                    rs += "".join("    %s\n" % x for x in b)
                    rargs.append(v)
                else:
                    a, b = em.build(r, v, "__X__", t)
                    rargs.append(b[0][len("__X__ = "):-1])
                c += "".join("    %s\n" % x for x in a)
                cargs.append(v)
            elif kind == "ptr":
                t = p["ty"].target
                if p["null"]:
                    cargs.append("0")
                    rargs.append("::std::ptr::null_mut::<u8>() as _")
                    continue
                c += "    %s; memset(&%s, 0, sizeof %s);\n" % (t.decl(v), v, v)
                bt = t
                while isinstance(bt, Td):
                    bt = bt.target
                if isinstance(bt, Rec):
                    rs += "    let mut %s: %s = ::std::mem::zeroed();\n" % (v, bt.rs_name(o))
                    a, b = em.build(r, v, v, t)
                    rs += "".join("    %s\n" % x for x in b)
                    rargs.append("&mut %s" % v)
                else:
                    a, b = em.build(r, v, "__X__", t)
                    rs += "    let mut b%d = Buf([0; 512]); let %s = b%d.0.as_mut_ptr() as *mut _; set(%s, 0, %s);\n" % (k, v, k, v, b[0][len("__X__ = "):-1])
                    rargs.append(v)
                c += "".join("    %s\n" % x for x in a)
                cargs.append("&" + v)
            elif kind == "voidptr":
                if p["null"]:
                    cargs.append("0")
                    rargs.append("::std::ptr::null_mut::<u8>() as _")
                    continue
                byte = r.randrange(256)
                c += "    unsigned char %s = %d;\n" % (v, byte)
                rs += "    let mut %s: u8 = %d;\n" % (v, byte)
                cargs.append("&" + v)
                rargs.append("&mut %s as *mut u8 as _" % v)
            elif kind == "str":
                c += '    const char *%s = "%s";\n' % (v, p["text"])
                rs += '    let %s = b"%s\\0";\n' % (v, p["text"])
                cargs.append(v)
                rargs.append("%s.as_ptr() as _" % v)
            elif kind == "array":
                t = p["ty"].elem
                c += "    %s; memset(%s, 0, sizeof %s);\n" % (Arr(t, p["n"]).decl(v), v, v)
                rs += "    let mut b%d = Buf([0; 512]); let %s = b%d.0.as_mut_ptr() as *mut _;\n" % (k, v, k)
                for i in range(p["n"]):
                    a, b = em.build(r, "%s[%d]" % (v, i), "__X__", t)
                    c += "    %s\n" % a[0]
                    rs += "    set(%s, %d, %s);\n" % (v, i, b[0][len("__X__ = "):-1])
                cargs.append(v)
                rargs.append(v)
            elif kind == "array2":
                vals = [[r.randrange(-1000, 1000) for _ in range(3)] for _ in range(2)]
                c += "    int %s[2][3] = {%s};\n" % (v, ", ".join("{%s}" % ", ".join(map(str, row)) for row in vals))
                rs += "    let mut %s: [[::std::os::raw::c_int; 3]; 2] = [%s];\n" % (v, ", ".join("[%s]" % ", ".join(map(str, row)) for row in vals))
                cargs.append(v)
                rargs.append("%s.as_mut_ptr()" % v)
            elif kind == "ptrptr":
                val = r.randrange(-5000, 5000)
                c += "    int %sv = %d; int *%sp = &%sv;\n" % (v, val, v, v)
                rs += "    let mut %sv: ::std::os::raw::c_int = %d; let mut %sp: *mut ::std::os::raw::c_int = &mut %sv;\n" % (v, val, v, v)
                cargs.append("&%sp" % v)
                rargs.append("&mut %sp" % v)
            elif kind == "fnptr":
                if p["null"]:
                    cargs.append("0")
                    rargs.append("None")
                else:
                    cargs.append("cb%d" % p["proto"])
                    rargs.append("Some(cb%d)" % p["proto"])
        if f["variadic"]:
            for ch in f["va"]:
                if ch == "i":
                    x = r.randrange(-(1 << 31), 1 << 31)
                    cargs.append("(int)%d" % x if x > -(1 << 31) else "(int)(-2147483647-1)")
                    rargs.append("(%di64) as ::std::os::raw::c_int" % x)
                elif ch == "l":
                    x = r.randrange(-(1 << 62), 1 << 62)
                    cargs.append("(long)%dLL" % x)
                    rargs.append("(%di64) as ::std::os::raw::c_long" % x)
                elif ch == "d":
                    x = r.randrange(-(1 << 20), 1 << 20) / 8.0
                    cargs.append("(double)%r" % x)
                    rargs.append("%rf64" % x)
                else:
                    cargs.append("(void *)&anchor")
                    rargs.append("::std::ptr::addr_of_mut!(anchor) as *mut ::std::os::raw::c_void")
        rn = rust_name(f["name"])
        ccall = "%s(%s)" % (f["name"], ", ".join(cargs))
        rcall = "%s(%s)" % (rn, ", ".join(rargs))
        if isinstance(f["ret"], tuple):
            c += "    int (*r_)(int) = %s;\n    uint64_t h = 3; F(r_ ? r_(41) : -1);\n" % ccall
            rs += "    let r_ = %s;\n    let mut h: u64 = 3; F!(h, match r_ { Some(g_) => g_(41), None => -1 });\n" % rcall
        elif f["ret"] is None:
            c += "    %s;\n    uint64_t h = 3;\n" % ccall
            rs += "    %s;\n    let mut h: u64 = 3;\n" % rcall
        elif f["ret"] == "ptr":
            c += "    int *r_ = %s;\n    uint64_t h = 3; F(*r_);\n" % ccall
            rs += "    let r_ = %s;\n    let mut h: u64 = 3; F!(h, *r_);\n" % rcall
        else:
            a, b = em.fold("r_", "r_", f["ret"])
            c += "    %s = %s;\n    uint64_t h = 3;\n%s" % (f["ret"].decl("r_"), ccall, "".join("    %s\n" % x for x in a))
            rs += "    let r_ = %s;\n    let mut h: u64 = 3;\n%s" % (rcall, "".join("    %s\n" % x for x in b))
        c += '    printf("call %d %%016" PRIx64 " %%016" PRIx64 "\\n", last_h, h); }\n' % ci
        rs += '    println!("call %d {:016x} {:016x}", last_h, h); }\n' % ci
        return c, rs


# ------------------------------------------------------------------ C++ classes (methods, static methods, constructors, destructors)
CPP_SCAL = [("int", "i", 32), ("double", "f64", 64), ("short", "i", 16), ("long long", "i", 64), ("char", "i", 8), ("bool", "bool", 1), ("float", "f32", 32), ("unsigned", "u", 32),
            ("unsigned char", "u", 8), ("unsigned long", "u", 64)]


class CppLib:
    """header / definitions / C++ caller / Rust caller for a few classes; every member function folds `this` and its arguments"""
    def __init__(self, r, ncls, namespaces):
        self.r, self.ns_mode = r, namespaces
        self.classes = []
        for i in range(ncls):
            c = {"name": "K%d" % i, "ns": r.choice([None, None, "na", "nb"]), "fields": [], "ctors": [], "methods": [], "dtor": r.random() < 0.5}
            for k in range(r.choice([1, 2, 3])):
                c["fields"].append(("f%d" % k, r.choice(CPP_SCAL)))
            c["ctors"].append([("x", CPP_SCAL[0])])
            if r.random() < 0.6:
                c["ctors"].append([("x", CPP_SCAL[0]), ("y", r.choice(CPP_SCAL[:4]))])
            names = []
            for k in range(r.choice([1, 2, 4])):
                nm = r.choice(["m%d" % k, "ov", "ov", "type", "get"])
                ps = []
                for q in range(r.choice([0, 1, 2, 3])):
                    x = r.random()
                    if x < 0.7:
                        ps.append(("p%d" % q, r.choice(CPP_SCAL)))
                    elif x < 0.85:
                        ps.append(("p%d" % q, "cref"))
                    else:
                        ps.append(("p%d" % q, "ptr"))
                sig = (nm, tuple(p[1][0] if isinstance(p[1], tuple) else p[1] for p in ps))
                if sig in names:
                    continue
                names.append(sig)
                # overloads of one name share constness / staticness (mixed ones make exact-typed calls ambiguous in C++)
                prev = next((m for m in c["methods"] if m["name"] == nm), None)
                c["methods"].append({"name": nm, "params": ps, "ret": r.choice(CPP_SCAL + [None]), "const": prev["const"] if prev else r.random() < 0.4,
                                     "static": prev["static"] if prev else r.random() < 0.2, "seed": r.getrandbits(40) | 1})
            self.classes.append(c)
        # free functions sharing one name: C++ overloads plus one extern "C" function of that name, in random order (the n-th one gets the
        # Rust name fovN; each must still reach its own symbol)
        self.free = []
        sigs = [[("a", CPP_SCAL[0])], [("a", CPP_SCAL[1])], [("a", CPP_SCAL[3]), ("b", CPP_SCAL[3])], [("a", CPP_SCAL[4]), ("b", CPP_SCAL[0])]]
        r.shuffle(sigs)
        n = r.choice([2, 3, 4])
        cpos = r.randrange(n)
        for k in range(n):
            self.free.append({"params": sigs[k], "extern_c": k == cpos, "seed": r.getrandbits(40) | 1})

    def free_proto(self, f, body=None):
        p = "%slong long fov(%s)" % ('extern "C" ' if f["extern_c"] else "", ", ".join("%s %s" % (t[0], n) for n, t in f["params"]))
        return p

    def cpp_ty(self, c):
        return ("%s::%s" % (c["ns"], c["name"])) if c["ns"] else c["name"]

    def rs_ty(self, c):
        if self.ns_mode:
            return ("root::%s::%s" % (c["ns"], c["name"])) if c["ns"] else "root::" + c["name"]
        return ("%s_%s" % (c["ns"], c["name"])) if c["ns"] else c["name"]

    def pdecl(self, c, p):
        n, t = p
        if t == "cref":
            return "const %s &%s" % (c["name"], n)
        if t == "ptr":
            return "%s *%s" % (c["name"], n)
        return "%s %s" % (t[0], n)

    def mproto(self, c, m, qualified=False):
        ret = "void" if m["ret"] is None else m["ret"][0]
        nm = ("%s::%s" % (c["name"], m["name"])) if qualified else m["name"]
        return "%s%s %s(%s)%s" % ("static " if m["static"] and not qualified else "", ret, nm, ", ".join(self.pdecl(c, p) for p in m["params"]), " const" if m["const"] and not m["static"] else "")

    def header(self):
        s = "extern int ctor_count;\nextern int dtor_count;\nextern unsigned long long last_h;\n"
        for c in self.classes:
            body = "".join("  %s %s;\n" % (t[0], n) for n, t in c["fields"])
            for ps in c["ctors"]:
                body += "  %s(%s);\n" % (c["name"], ", ".join("%s %s" % (t[0], n) for n, t in ps))
            if c["dtor"]:
                body += "  ~%s();\n" % c["name"]
            for m in c["methods"]:
                body += "  %s;\n" % self.mproto(c, m)
            cls = "class %s {\npublic:\n%s};\n" % (c["name"], body)
            s += ("namespace %s {\n%s}\n" % (c["ns"], cls)) if c["ns"] else cls
        for f in self.free:
            s += self.free_proto(f) + ";\n"
        return s

    def fold_field(self, expr, t):
        if t[1] == "f64":
            return "{ double v_ = %s; unsigned long long b_; memcpy(&b_, &v_, 8); F(b_); }" % expr
        if t[1] == "f32":
            return "{ float v_ = %s; unsigned b_; memcpy(&b_, &v_, 4); F(b_); }" % expr
        return "F(%s);" % expr

    def lib_cpp(self):
        s = '#include "lib.hpp"\n#include <string.h>\n#define F(v) do { h = (h ^ (unsigned long long)(v)) * 1099511628211ULL; } while (0)\nint ctor_count, dtor_count; unsigned long long last_h;\n'
        for c in self.classes:
            body = ""
            for ps in c["ctors"]:
                init = []
                for k, (n, t) in enumerate(c["fields"]):
                    src = ps[k % len(ps)][0]
                    init.append("%s = (%s)(%s + %d);" % (n, t[0], src, k) if t[1] != "bool" else "%s = (%s != 0);" % (n, src))
                body += "%s::%s(%s) { %s ctor_count += %d; }\n" % (c["name"], c["name"], ", ".join("%s %s" % (t[0], n) for n, t in ps), " ".join(init), len(ps))
            if c["dtor"]:
                body += "%s::~%s() { dtor_count += 1 + (int)%s; }\n" % (c["name"], c["name"], c["fields"][0][0] if c["fields"][0][1][1] in "iu" else "0")
            for m in c["methods"]:
                b = "unsigned long long h = %dULL;\n" % m["seed"]
                if not m["static"]:
                    for n, t in c["fields"]:
                        b += "  " + self.fold_field("this->" + n, t) + "\n"
                for n, t in m["params"]:
                    if t == "cref":
                        b += "".join("  " + self.fold_field("%s.%s" % (n, fn), ft) + "\n" for fn, ft in c["fields"])
                    elif t == "ptr":
                        b += "  if (%s) { %s } else F(0);\n" % (n, " ".join(self.fold_field("%s->%s" % (n, fn), ft) for fn, ft in c["fields"]))
                    else:
                        b += "  " + self.fold_field(n, t) + "\n"
                if not m["const"] and not m["static"] and c["fields"][0][1][1] in "iu":
                    b += "  this->%s = (%s)(h >> 9);\n" % (c["fields"][0][0], c["fields"][0][1][0])
                b += "  last_h = h;\n"
                if m["ret"] is not None:
                    r_ = m["ret"]
                    b += "  return %s;\n" % ("(h >> 4) & 1" if r_[1] == "bool" else ("(%s)((double)(long long)((h >> 5) %% 4096) - 2048.0) / 8" % r_[0] if r_[1] in ("f32", "f64") else "(%s)(h >> 3)" % r_[0]))
                body += "%s {\n  %s}\n" % (self.mproto(c, m, True), b)
            s += ("namespace %s {\n%s}\n" % (c["ns"], body)) if c["ns"] else body
        for f in self.free:
            s += self.free_proto(f) + " { unsigned long long h = %dULL; %s last_h = h; return (long long)(h >> 7); }\n" % (f["seed"], " ".join(self.fold_field(n, t) for n, t in f["params"]))
        return s

    def callers(self):
        r = self.r
        cpp = '#include "lib.hpp"\n#include <stdio.h>\n#include <string.h>\n#define F(v) do { h = (h ^ (unsigned long long)(v)) * 1099511628211ULL; } while (0)\nint main() {\n'
        rs = "#![allow(warnings)]\ninclude!(\"bindings.rs\");\nmacro_rules! F { ($h:ident, $v:expr) => { $h = ($h ^ (($v) as u64)).wrapping_mul(1099511628211u64); } }\nfn main() { unsafe {\n"
        if self.ns_mode:
            rs += "use root::*;\n"
        sc = lambda t: Sc(t[0], t[1], t[2])
        line = 0
        for ci, c in enumerate(self.classes):
            # overload numbering per Rust name, in declaration order (constructors: new, new1, ...)
            seen = {}
            rnames = []
            for m in c["methods"]:
                # the overload number is appended to the C++ name, the result is then made a Rust identifier (`type`, `type` -> `type_`, `type1`)
                k = seen.get(m["name"], 0)
                seen[m["name"]] = k + 1
                rnames.append(rust_name(m["name"] if k == 0 else "%s%d" % (m["name"], k)))
            objs = []
            for k, ps in enumerate(c["ctors"]):
                vals = [scalar_value(r, sc(t)) for _, t in ps]
                o = "o%d_%d" % (ci, k)
                cpp += "  %s %s(%s);\n" % (self.cpp_ty(c), o, ", ".join("(%s)%s" % (t[0], c_lit(sc(t), v)) for (_, t), v in zip(ps, vals)))
                rs += "  let mut %s = %s::%s(%s);\n" % (o, self.rs_ty(c), "new" if k == 0 else "new%d" % k, ", ".join(rs_lit(sc(t), v) for (_, t), v in zip(ps, vals)))
                objs.append(o)
            for mi, m in enumerate(c["methods"]):
                for rep in range(2):
                    o = r.choice(objs)
                    other = r.choice(objs)
                    ca, ra = [], []
                    for n, t in m["params"]:
                        if t == "cref":
                            ca.append(other)
                            ra.append("&%s" % other)
                        elif t == "ptr":
                            if r.random() < 0.3:
                                ca.append("(%s *)0" % self.cpp_ty(c))
                                ra.append("::std::ptr::null_mut()")
                            else:
                                ca.append("&" + other)
                                ra.append("&mut %s as *mut _" % other if other != o else "::std::ptr::null_mut()")
                                if other == o:
                                    ca[-1] = "(%s *)0" % self.cpp_ty(c)
                        else:
                            v = scalar_value(r, sc(t))
                            ca.append("(%s)%s" % (t[0], c_lit(sc(t), v)))     # exact argument types: overload resolution must not be ambiguous
                            ra.append(rs_lit(sc(t), v))
                    ccall = ("%s::%s(%s)" % (self.cpp_ty(c), m["name"], ", ".join(ca))) if m["static"] else "%s.%s(%s)" % (o, m["name"], ", ".join(ca))
                    rcall = ("%s::%s(%s)" % (self.rs_ty(c), rnames[mi], ", ".join(ra))) if m["static"] else "%s.%s(%s)" % (o, rnames[mi], ", ".join(ra))
                    if m["ret"] is None:
                        cpp += "  { %s; unsigned long long h = 3;" % ccall
                        rs += "  { %s; let mut h: u64 = 3;" % rcall
                    else:
                        t = m["ret"]
                        cpp += "  { %s r_ = %s; unsigned long long h = 3; %s" % (t[0], ccall, self.fold_field("r_", t))
                        rs += "  { let r_ = %s; let mut h: u64 = 3; F!(h, %s);" % (rcall, "r_.to_bits()" if t[1] in ("f32", "f64") else "r_")
                    cpp += ' printf("line %d %%016llx %%016llx\\n", last_h, h); }\n' % line
                    rs += ' println!("line %d {:016x} {:016x}", last_h, h); }\n' % line
                    line += 1
            if c["dtor"]:
                for o in objs:
                    rs += "  %s.destruct();\n" % o
        sc2 = lambda t: Sc(t[0], t[1], t[2])
        for k, f in enumerate(self.free):
            for rep in range(2):
                vals = [scalar_value(r, sc2(t)) for _, t in f["params"]]
                cpp += '  { long long r_ = fov(%s); printf("line %d %%016llx %%016llx\\n", last_h, (unsigned long long)r_); }\n' % (", ".join("(%s)%s" % (t[0], c_lit(sc2(t), v)) for (_, t), v in zip(f["params"], vals)), line)
                rs += '  { let r_ = %s(%s); println!("line %d {:016x} {:016x}", last_h, r_ as u64); }\n' % ("fov" if k == 0 else "fov%d" % k, ", ".join(rs_lit(sc2(t), v) for (_, t), v in zip(f["params"], vals)), line)
                line += 1
        # C++ destroys the objects at scope exit; count constructor calls now, destructor effects after an inner scope is not needed:
        cpp += '  printf("ctors %d\\n", ctor_count);\n  return 0;\n}\n'
        rs += '  println!("ctors {}", ctor_count);\n} }\n'
        return cpp, rs
