# ./check --setup : build everything from files on disk (offline): translators -> coq/gen,
# full Coq build from clean, coqchk, harness, CLI, bit-field harness, extracted driver.
import glob, importlib, os, sys, time
import vlib
from vlib import sh, ROOT, COQ


def main():
    t0 = time.time()
    os.makedirs(vlib.CACHE, exist_ok=True)
    os.makedirs(os.path.join(COQ, "gen"), exist_ok=True)
    sys.path.insert(0, os.path.join(ROOT, "translator"))
    # 1. translators (each writes its coq/gen/*.v)
    for f in sorted(glob.glob(os.path.join(ROOT, "translator", "tr_*.py"))):
        m = importlib.import_module(os.path.basename(f)[:-3])
        try:
            m.main(vlib.REPO, os.path.join(COQ, "gen", m.OUT if hasattr(m, "OUT") else os.path.basename(f)[3:-3].upper() + "_Table.v"))
        except Exception as e:
            print("setup: translator %s failed: %r" % (f, e))
    # 2. Coq from clean
    sh("find . -name '*.vo' -o -name '*.vok' -o -name '*.vos' -o -name '*.glob' -o -name '.*.aux' | xargs rm -f", cwd=COQ)
    ok = True
    vlib.coq_project()
    sh(["make", "-k", "-j%d" % vlib.NCPU], cwd=COQ, timeout=3000)   # best effort, keep going
    for f in sorted(glob.glob(os.path.join(COQ, "theories", "*", "*.v"))):
        if not os.path.exists(f + "o"):
            ok = False
            print("setup: WARNING %s did not build (its check will report it)" % os.path.relpath(f, COQ))
    print("setup: coq build %s (%.0fs)" % ("ok" if ok else "incomplete", time.time() - t0))
    # 3. rust + ocaml pieces
    try:
        vlib.build_harness()
        vlib.build_cli()
        import c03
        c03.build_model_driver()
        c03.build_bitharness("quick")
        print("setup: harness, cli, bitharness, driver ok (%.0fs)" % (time.time() - t0))
    except Exception as e:
        print("setup: WARNING build failed (checks will report it): %r" % (e,))
    # 4. independent re-check of compiled proofs (records library-wide axioms)
    if os.environ.get("VERIF_SKIP_COQCHK") != "1":
        mods = []
        for f in sorted(glob.glob(os.path.join(COQ, "theories", "*", "Properties.v"))):
            if os.path.exists(f + "o"):
                mods.append("BG." + os.path.basename(os.path.dirname(f)) + ".Properties")
        rc, out = sh(["coqchk", "-silent", "-o", "-Q", "theories", "BG", "-Q", "gen", "BGgen"] + mods, cwd=COQ, timeout=3000)
        open(os.path.join(vlib.CACHE, "coqchk.log"), "w").write(out)
        print("setup: coqchk rc=%d (%.0fs)\n%s" % (rc, time.time() - t0, out[-1200:]))
    return 0
