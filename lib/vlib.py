# Common machinery for every ./check <Cxx> run: shelling out, Coq builds and
# assumption audits, harness builds, known findings, replay files, evidence.
import fcntl, hashlib, json, os, random, re, shutil, subprocess, sys, time

ROOT = os.path.dirname(os.path.dirname(os.path.abspath(__file__)))
REPO = os.environ.get("VERIF_REPO", "/repo")
CACHE = os.path.join(ROOT, ".cache")
COQ = os.path.join(ROOT, "coq")
TARGET = os.path.join(CACHE, "target")
GUARD = "bindgen_verif"
NCPU = os.cpu_count() or 8

FORBIDDEN = re.compile(
    r"\b(Admitted|admit|Axiom|Axioms|Parameter|Parameters|Conjecture|Hypothesis|Variable|"
    r"Admit Obligations|bypass_check|native_compute)\b|Unset\s+Guard|Unset\s+Positivity|"
    r"Unset\s+Universe|type-in-type|impredicative-set")

# axioms of the Coq standard library a theorem may depend on (each must be named
# in the trusted base of the evidence file that uses it); empty = closed proofs only
AXIOM_ALLOW = {
    "functional_extensionality_dep": "Coq.Logic.FunctionalExtensionality (brought in by Program Fixpoint / Equations)",
}


class TieBroken(Exception):
    """The tie between model and source could not be established."""

    def __init__(self, name, detail=""):
        super().__init__(name + ": " + detail[-2000:])
        self.name = name
        self.detail = detail


def sh(cmd, timeout=600, cwd=None, env=None, input=None, check=False):
    e = dict(os.environ)
    e.update({"CARGO_NET_OFFLINE": "true", "LC_ALL": "C.UTF-8"})
    if env:
        e.update(env)
    if _is_bindgen_cmd(cmd):
        rc, out, _ = _guarded(cmd, timeout, cwd, e, input, True)
        if rc == 124:
            out += "\n[timeout after %ss]" % timeout
        if check and rc != 0:
            raise RuntimeError("command failed (%s): %s\n%s" % (rc, cmd, out[-3000:]))
        return rc, out
    try:
        p = subprocess.run(cmd, shell=isinstance(cmd, str), cwd=cwd, env=e, input=input,
                           stdout=subprocess.PIPE, stderr=subprocess.STDOUT, timeout=timeout,
                           text=True, errors="replace")
        rc, out = p.returncode, p.stdout
    except subprocess.TimeoutExpired as ex:
        rc, out = 124, (ex.stdout or "") if isinstance(ex.stdout, str) else ""
        out += "\n[timeout after %ss]" % timeout
    if check and rc != 0:
        raise RuntimeError("command failed (%s): %s\n%s" % (rc, cmd, out[-3000:]))
    return rc, out


ENV_FLAKES = {"clang_probe_spin": 0}


def _descendants(pid):
    out, todo = [], [str(pid)]
    while todo:
        q = todo.pop()
        try:
            kids = subprocess.run(["pgrep", "-P", q], stdout=subprocess.PIPE, text=True, timeout=10).stdout.split()
        except Exception:
            kids = []
        out += kids
        todo += kids
    return out


def _clang_probe_spinning(pid, older_than=4.0):
    """clang_sys asks the clang driver for its search paths (`clang -E -x c - -v`, empty stdin) at the start of every Builder::generate.
    clang 14 occasionally lexes garbage there and prints diagnostics for minutes (seen under gdb: cc1 in TextDiagnostic, fd 0 = /dev/null).
    That is the installed compiler, not bindgen: such a run is repeated instead of being reported as a hang."""
    for k in _descendants(pid):
        try:
            cmdl = open("/proc/%s/cmdline" % k, "rb").read().split(b"\0")
            st = os.stat("/proc/%s" % k)
        except OSError:
            continue
        if b"-E" in cmdl and b"-v" in cmdl and b"-" in cmdl and os.path.basename(cmdl[0]).startswith(b"clang") and time.time() - st.st_mtime > older_than:
            return True
    return False


def _guarded(cmd, timeout, cwd, e, input, merge):
    """run a bindgen / harness command; returns (rc, out, err); rc 124 on a real timeout"""
    for attempt in range(4):
        pr = subprocess.Popen(cmd, cwd=cwd, env=e, stdin=subprocess.PIPE if input is not None else None, stdout=subprocess.PIPE,
                              stderr=subprocess.STDOUT if merge else subprocess.PIPE, text=True, errors="replace")
        t0 = time.time()
        first = True
        while True:
            try:
                o, er = pr.communicate(input=input if first else None, timeout=min(6.0, max(0.5, timeout - (time.time() - t0))))
                return pr.returncode, o, er or ""
            except subprocess.TimeoutExpired:
                first = False
                spin = _clang_probe_spinning(pr.pid)
                if spin or time.time() - t0 >= timeout:
                    for k in _descendants(pr.pid):
                        try:
                            os.kill(int(k), 9)
                        except OSError:
                            pass
                    pr.kill()
                    try:
                        pr.communicate(timeout=10)
                    except Exception:
                        pass
                    if spin and attempt < 3:
                        ENV_FLAKES["clang_probe_spin"] += 1
                        break
                    return 124, "", "[timeout after %ss]" % timeout
    return 124, "", "[timeout after %ss]" % timeout


def _is_bindgen_cmd(cmd):
    return isinstance(cmd, (list, tuple)) and cmd and os.path.basename(str(cmd[0])) in ("bindgen", "bgv")


def sh2(cmd, timeout=600, cwd=None, env=None, input=None):
    """like sh but keeps stdout and stderr apart; input/stdout are bytes-safe text"""
    e = dict(os.environ)
    e.update({"CARGO_NET_OFFLINE": "true", "LC_ALL": "C.UTF-8"})
    if env:
        e.update(env)
    if _is_bindgen_cmd(cmd):
        return _guarded(cmd, timeout, cwd, e, input, False)
    try:
        p = subprocess.run(cmd, shell=isinstance(cmd, str), cwd=cwd, env=e, input=input,
                           stdout=subprocess.PIPE, stderr=subprocess.PIPE, timeout=timeout,
                           text=True, errors="replace")
        return p.returncode, p.stdout, p.stderr
    except subprocess.TimeoutExpired as ex:
        return 124, "", "[timeout after %ss]" % timeout


class Lock:
    def __init__(self, name):
        os.makedirs(CACHE, exist_ok=True)
        self.path = os.path.join(CACHE, name + ".lock")

    def __enter__(self):
        self.f = open(self.path, "w")
        fcntl.flock(self.f, fcntl.LOCK_EX)
        return self

    def __exit__(self, *a):
        fcntl.flock(self.f, fcntl.LOCK_UN)
        self.f.close()


# ----------------------------------------------------------------- encoding
_SAFE = set(b"abcdefghijklmnopqrstuvwxyzABCDEFGHIJKLMNOPQRSTUVWXYZ0123456789_-./:,=+@(){}[]<>;&*!#'\"|^~?$`")


def enc(s):
    b = s.encode("utf-8", "surrogateescape") if isinstance(s, str) else s
    return "".join(chr(c) if c in _SAFE else "%%%02X" % c for c in b)


def dec(s):
    out = bytearray()
    i = 0
    b = s.encode()
    while i < len(b):
        if b[i] == 0x25 and i + 2 < len(b):
            out.append(int(b[i + 1:i + 3], 16))
            i += 3
        else:
            out.append(b[i])
            i += 1
    return out.decode("utf-8", "replace")


# ------------------------------------------------------------------- Coq
def coq_project():
    """(Re)write _CoqProject from what is on disk and regenerate the Makefile."""
    files = []
    for base in ("theories", "gen"):
        for d, _, fs in sorted(os.walk(os.path.join(COQ, base))):
            for f in sorted(fs):
                if f.endswith(".v"):
                    files.append(os.path.relpath(os.path.join(d, f), COQ))
    txt = "-Q theories BG\n-Q gen BGgen\n-arg -w -arg -notation-overridden,-deprecated-hint-without-locality,-deprecated-instance-without-locality\n" + "\n".join(files) + "\n"
    p = os.path.join(COQ, "_CoqProject")
    old = open(p).read() if os.path.exists(p) else ""
    if old != txt or not os.path.exists(os.path.join(COQ, "Makefile")):
        open(p, "w").write(txt)
        sh("coq_makefile -f _CoqProject -o Makefile", cwd=COQ, check=True)


def coq_make(targets, timeout=1500):
    """Full .vo build of the given targets (paths relative to coq/). Returns (ok, log)."""
    with Lock("coq"):
        coq_project()
        rc, out = sh(["make", "-j%d" % NCPU] + list(targets), cwd=COQ, timeout=timeout)
    return rc == 0, out


def coq_audit_sources(paths):
    """grep for anything that would declare an axiom or switch off a kernel check."""
    bad = []
    for p in paths:
        src = open(p).read()
        src_nc = strip_coq_comments(src)
        for m in FORBIDDEN.finditer(src_nc):
            tok = m.group(0)
            # 'Variable'/'Hypothesis' are fine inside a Section; find enclosing section
            if tok in ("Variable", "Hypothesis", "Parameter", "Parameters"):
                pre = src_nc[:m.start()]
                if len(re.findall(r"^\s*Section\s", pre, re.M)) > len(re.findall(r"^\s*End\s", pre, re.M)) and tok in ("Variable", "Hypothesis"):
                    continue
            bad.append("%s: %s" % (os.path.relpath(p, ROOT), tok))
    return bad


def strip_coq_comments(s):
    out, depth, i, in_str = [], 0, 0, False
    while i < len(s):
        if not in_str and s.startswith("(*", i):
            depth += 1
            i += 2
            continue
        if not in_str and depth and s.startswith("*)", i):
            depth -= 1
            i += 2
            continue
        if depth == 0:
            if s[i] == '"':
                in_str = not in_str
            out.append(s[i])
        i += 1
    return "".join(out)


def coq_deps(vfile):
    """transitive BG/BGgen source dependencies of a .v file (by Require lines)."""
    seen, todo = set(), [vfile]
    while todo:
        f = todo.pop()
        if f in seen or not os.path.exists(f):
            continue
        seen.add(f)
        src = strip_coq_comments(open(f).read())
        for m in re.finditer(r"From\s+(BG|BGgen)\s+Require\s+(?:Import|Export)?\s*([^.]*(?:\.[A-Za-z_][^.\s]*)*)\s*\.", src):
            base = "theories" if m.group(1) == "BG" else "gen"
            for mod in m.group(2).split():
                todo.append(os.path.join(COQ, base, mod.replace(".", "/") + ".v"))
    return sorted(seen)


def coq_check_properties(ck, relv, extra_allow=()):
    """Rebuild <relv> (a Properties.v, relative to coq/) from scratch, audit its
    sources, and record one obligation per theorem with its Print Assumptions."""
    vfile = os.path.join(COQ, relv)
    vo = vfile + "o"
    src = strip_coq_comments(open(vfile).read())
    theorems = re.findall(r"^\s*(?:Theorem|Lemma|Corollary)\s+([A-Za-z0-9_']+)", src, re.M)
    printed = re.findall(r"Print\s+Assumptions\s+([A-Za-z0-9_'.]+)\s*\.", src)
    with Lock("coq"):
        coq_project()
        if os.path.exists(vo):
            os.remove(vo)
        rc, out = sh(["make", "-j%d" % NCPU, relv + "o"], cwd=COQ, timeout=1500)
    bad = coq_audit_sources(coq_deps(vfile))
    ck.coverage.setdefault("checker_cmd", "coq_makefile -f _CoqProject -o Makefile && make -j%d %so (coqc 8.16.1, full .vo build) + Print Assumptions audit + forbidden-token grep" % (NCPU, relv))
    if rc != 0:
        # find which theorem broke: first error location
        m = re.search(r'File "([^"]+)", line (\d+)', out)
        where = "%s:%s" % (m.group(1), m.group(2)) if m else relv
        errtxt = out[-1500:]
        for t in theorems:
            ck.obligation("%s:%s" % (relv, t), False, "build failed at %s" % where)
        ck.broken("proof", relv, "Coq build failed at %s\n%s" % (where, errtxt))
        return False
    # parse Print Assumptions output blocks, in order
    blocks = parse_assumptions(out, len(printed))
    ok_all = True
    allow = set(AXIOM_ALLOW) | set(extra_allow)
    for t in theorems:
        if t not in printed:
            ck.obligation("%s:%s" % (relv, t), False, "no Print Assumptions under theorem")
            ck.broken("proof", "%s:%s" % (relv, t), "theorem without Print Assumptions")
            ok_all = False
    for name, axs in zip(printed, blocks):
        extra = [a for a in axs if a not in allow]
        ok = not extra
        ck.obligation("%s:%s" % (relv, name), ok, "closed" if not axs else "axioms: " + ", ".join(axs))
        for a in axs:
            ck.axioms_used.add(a)
        if not ok:
            ck.broken("proof", "%s:%s" % (relv, name), "depends on axioms outside the allow-list: %s" % extra)
            ok_all = False
    if bad:
        ck.obligation("%s:source-audit" % relv, False, "; ".join(bad))
        ck.broken("proof", relv, "forbidden tokens: " + "; ".join(bad))
        ok_all = False
    else:
        ck.obligation("%s:source-audit" % relv, True, "no Admitted/admit/Axiom/Parameter/... in %d source files" % len(coq_deps(vfile)))
    return ok_all


def parse_assumptions(out, n):
    blocks = []
    lines = out.splitlines()
    i = 0
    while i < len(lines):
        l = lines[i]
        if l.startswith("Closed under the global context"):
            blocks.append([])
        elif l.startswith("Axioms:"):
            axs = []
            i += 1
            while i < len(lines) and (lines[i].startswith(" ") or re.match(r"^[A-Za-z_][A-Za-z0-9_'.]*\s*:", lines[i])):
                m = re.match(r"^([A-Za-z_][A-Za-z0-9_'.]*)\s*:", lines[i])
                if m:
                    axs.append(m.group(1).split(".")[-1])
                i += 1
            blocks.append(axs)
            continue
        i += 1
    while len(blocks) < n:
        blocks.append(["<unparsed>"])
    return blocks


def coq_eval(name, body, timeout=900):
    """Compile a throw-away .v (under .cache/eval) against the built project; returns (rc, out)."""
    d = os.path.join(CACHE, "eval")
    os.makedirs(d, exist_ok=True)
    f = os.path.join(d, name + ".v")
    open(f, "w").write(body)
    return sh(["coqc", "-noglob", "-Q", os.path.join(COQ, "theories"), "BG", "-Q", os.path.join(COQ, "gen"), "BGgen",
               "-w", "-notation-overridden,-deprecated-hint-without-locality", f], cwd=d, timeout=timeout)


def coq_eval_many(prefix, bodies, timeout=900):
    """Run several coqc jobs in parallel; returns list of (rc,out)."""
    from concurrent.futures import ThreadPoolExecutor
    with ThreadPoolExecutor(max_workers=NCPU) as ex:
        return list(ex.map(lambda ib: coq_eval("%s_%d" % (prefix, ib[0]), ib[1], timeout), enumerate(bodies)))


def coq_nlist(xs):
    return "[" + "; ".join(str(int(x)) for x in xs) + "]"


def coq_str(s):
    """a Coq term of type list N for the bytes of s"""
    b = s.encode("utf-8", "surrogateescape") if isinstance(s, str) else bytes(s)
    return coq_nlist(b)


def parse_coq_nlists(out):
    """all '= [ ... ]' N-list results printed by Eval, flattened text -> python lists (nested supported)"""
    res = []
    for m in re.finditer(r"=\s*(\[.*?\])\s*:\s*list", out, re.S):
        t = m.group(1).replace(";", ",").replace("%N", "")
        t = re.sub(r"\s+", " ", t)
        t = t.replace("true", "1").replace("false", "0")
        try:
            res.append(json.loads(t))
        except Exception:
            res.append(None)
    return res


# --------------------------------------------------------------- cargo builds
def cargo_env():
    return {"CARGO_TARGET_DIR": TARGET, "RUSTFLAGS": "--cfg " + GUARD, "CARGO_NET_OFFLINE": "true"}


def build_harness():
    hd = os.path.join(ROOT, "harness")
    shutil.copyfile(os.path.join(REPO, "Cargo.lock"), os.path.join(hd, "Cargo.lock"))
    rc, out = sh("cargo build --offline 2>&1", cwd=hd, env=cargo_env(), timeout=1800)
    if rc != 0:
        raise TieBroken("harness-build", out)
    return os.path.join(TARGET, "debug", "bgv")


def build_cli():
    rc, out = sh("cargo build -p bindgen-cli --offline 2>&1", cwd=REPO, env=cargo_env(), timeout=1800)
    if rc != 0:
        raise TieBroken("bindgen-cli-build", out)
    return os.path.join(TARGET, "debug", "bindgen")


def bgv(sub, lines, args=(), timeout=600, env=None):
    exe = os.path.join(TARGET, "debug", "bgv")
    rc, out, err = sh2([exe, sub] + list(args), input="\n".join(lines) + "\n", timeout=timeout, env=env)
    if rc != 0:
        raise TieBroken("harness-run:" + sub, err[-3000:] + out[-500:])
    res = out.split("\n")
    if res and res[-1] == "":
        res.pop()
    return res


# ------------------------------------------------------------------ findings
def load_known():
    p = os.path.join(ROOT, "KNOWN_FINDINGS.jsonl")
    ks = []
    if os.path.exists(p):
        for l in open(p):
            l = l.strip()
            if l and not l.startswith("#"):
                ks.append(json.loads(l))
    return ks


class Check:
    def __init__(self, prop, tier, seed):
        self.prop, self.tier, self.seed = prop, tier, seed
        self.t0 = time.time()
        self.rng = random.Random(seed)
        self.obligations = []
        self.coverage = {}
        self.samples = []
        self.evaluations = 0
        self.nontrivial = set()
        self.violations = []
        self.known_hit = {}
        self.axioms_used = set()
        self.trusted = []
        self.assumptions = []
        self.notes = {}
        self.known = [k for k in load_known() if k.get("property") == prop]
        os.makedirs(os.path.join(ROOT, "replays"), exist_ok=True)
        os.makedirs(os.path.join(ROOT, "evidence"), exist_ok=True)

    # ---- counting
    def obligation(self, name, ok, detail=""):
        self.obligations.append({"name": name, "ok": bool(ok), "detail": detail})

    def case(self, key=None, nontrivial=True, n=1):
        self.evaluations += n
        if nontrivial and key is not None:
            self.nontrivial.add(key if isinstance(key, (str, int, tuple)) else json.dumps(key, sort_keys=True))

    def sample(self, x, cap=6):
        if len(self.samples) < cap:
            self.samples.append(x)

    def count(self, k, n=1):
        self.notes[k] = self.notes.get(k, 0) + n

    # ---- reporting
    def _replay(self, kind, data):
        h = hashlib.sha256(json.dumps(data, sort_keys=True, default=str).encode()).hexdigest()[:12]
        path = os.path.join(ROOT, "replays", "%s-%s.json" % (self.prop, h))
        doc = {"property": self.prop, "kind": kind, "seed": self.seed, "tier": self.tier,
               "rerun": "./check %s --replay %s" % (self.prop, path)}
        doc.update(data)
        json.dump(doc, open(path, "w"), indent=1, default=str)
        return path

    def violation(self, cls, what, data):
        """A concrete failing input was found.  cls = class key used for known-finding matching."""
        for k in self.known:
            if k.get("class") == cls:
                if k.get("status") == "known":
                    if cls not in self.known_hit:
                        self.known_hit[cls] = (k, what, data)
                    return False
        if any(v["class"] == cls for v in self.violations):
            return True
        d = dict(data)
        d.update({"class": cls, "what": what})
        path = self._replay("impl-vs-spec", d)
        self.violations.append({"class": cls, "what": what, "replay": path, "found_input": True})
        return True

    def broken(self, kind, name, detail):
        """A proof obligation or a correspondence no longer checks (no failing input yet)."""
        self.violations.append({"class": "broken:" + kind + ":" + name, "what": detail, "replay": None,
                                "found_input": False, "kind": kind, "name": name})

    def finish(self):
        # a broken tie/proof with a concrete failing input of the same run is reported through that input
        found = [v for v in self.violations if v["found_input"]]
        notfound = [v for v in self.violations if not v["found_input"]]
        lines = []
        for cls, (k, what, data) in sorted(self.known_hit.items()):
            lines.append("KNOWN-FINDING: property=%s class=%s %s" % (self.prop, cls, k.get("what", what)))
        seen = set()
        for v in found:
            if v["class"] in seen:
                continue
            seen.add(v["class"])
            lines.append("VIOLATION property=%s replay=%s" % (self.prop, v["replay"]))
        if notfound:
            # one replay file naming every theorem / correspondence that no longer checks
            data = {"broken": [{"kind": v["kind"], "name": v["name"], "detail": v["what"][:8000]} for v in notfound],
                    "concrete_inputs_found_in_same_run": [v["replay"] for v in found]}
            path = self._replay("broken-theorem-or-correspondence", data)
            if found:
                lines.append("NOTE property=%s broken obligations/correspondences recorded in %s" % (self.prop, path))
            else:
                lines.append("VIOLATION property=%s replay=%s no-failing-input-found" % (self.prop, path))
        nob = len(self.obligations)
        ndis = sum(1 for o in self.obligations if o["ok"])
        cov = dict(self.coverage)
        tb = ["Coq 8.16.1 kernel incl. vm_compute conversion; no native_compute; no axioms declared by this development"]
        for a in sorted(self.axioms_used):
            tb.append("stdlib axiom %s (%s)" % (a, AXIOM_ALLOW.get(a, "?")))
        tb += self.trusted
        cov.update({
            "obligations": nob, "discharged": ndis,
            "trusted_base": tb,
            "evaluations": self.evaluations,
            "distinct_nontrivial": len(self.nontrivial),
            "samples": self.samples if self.samples else [o["name"] for o in self.obligations[:5]],
            "obligation_list": self.obligations,
            "counters": dict(self.notes, environment_flakes_retried=dict(ENV_FLAKES)),
            "known_findings_reproduced": sorted(self.known_hit),
            "known_findings_listed_not_reproduced_this_run": sorted(
                k["class"] for k in self.known if k.get("status") == "known" and k["class"] not in self.known_hit),
        })
        cov.setdefault("checker_cmd", "n/a")
        cov.setdefault("rule", "")
        ev = {"property_id": self.prop, "tier": self.tier, "seed": self.seed, "level": "proof",
              "coverage": cov, "assumptions": self.assumptions,
              "wall_s": round(time.time() - self.t0, 2),
              "violations": len([l for l in lines if l.startswith("VIOLATION")])}
        json.dump(ev, open(os.path.join(ROOT, "evidence", self.prop + ".json"), "w"), indent=1, default=str)
        for l in lines:
            print(l)
        print("%s %s: obligations %d/%d, evaluations %d (distinct non-trivial %d), %.1fs" % (
            self.prop, self.tier, ndis, nob, self.evaluations, len(self.nontrivial), time.time() - self.t0))
        sys.stdout.flush()
        return 1 if any(l.startswith("VIOLATION") for l in lines) else 0
