# Parser for the H1 IR dump ($BINDGEN_VERIF_LOG) and rendering into the Coq IR of C07/Model.v
import os, re, subprocess
import vlib

EDGE = ["Generic", "TemplateParameterDefinition", "TemplateDeclaration", "TemplateArgument", "BaseMember", "Field", "InnerType",
        "InnerVar", "Method", "Constructor", "Destructor", "FunctionReturn", "FunctionParameter", "VarType", "TypeReference"]


def kv(parts):
    d = {}
    for p in parts:
        if "=" in p:
            k, v = p.split("=", 1)
            d[k] = v
    return d


def idlist(s):
    return [] if s in ("-", "") else [int(x.split(":")[0]) for x in s.split(",")]


class Dump:
    def __init__(self, text):
        self.items = {}      # id -> dict
        self.edges = {}      # id -> [(to, kindname)]
        self.res = {}        # analysis -> {id: value}
        self.unstable = []   # (analysis type name, node text)
        self.ran = {}        # analysis -> bool
        self.consulted = []  # (analysis substring, item id): unstable facts that code generation looked up
        self.rootmod = None
        self.roots = None
        self.complete = False
        self.bfpacked = {}   # comp item id -> the `packed` flag compute_bitfield_units used (hook lines BFUNITS / BFPACKED)
        cur_bf = None
        for line in text.splitlines():
            p = line.split(" ")
            tag = p[0]
            if tag == "BFUNITS":
                cur_bf = int(p[1])
                continue
            if tag == "BFPACKED":
                if cur_bf is not None:
                    self.bfpacked[cur_bf] = p[1] == "1"
                cur_bf = None
                continue
            if tag == "ITEM":
                i = int(p[1])
                d = kv(p[3:])
                d.update({"id": i, "ikind": p[2], "fields": []})
                for k in ("allow", "codegen", "opaque", "blocklisted", "enabled"):
                    d[k] = d.get(k) == "1"
                d["parent"] = int(d["parent"])
                d["canon"] = None if d.get("canon") == "-" else vlib.dec(d.get("canon", "-"))
                self.items[i] = d
            elif tag == "TYPE":
                i = int(p[1])
                d = self.items[i]
                d["tkind"] = p[2]
                d.update(kv(p[3:]))
                d["name"] = "" if d.get("name") == "-" else vlib.dec(d.get("name", ""))
                d["size"], d["align"] = int(d["size"]), int(d["align"])
            elif tag in ("MODULE", "FUNCTION", "VAR"):
                i = int(p[1])
                self.items[i].update(kv(p[2:]))
                if "name" in self.items[i]:
                    n = self.items[i]["name"]
                    self.items[i]["name"] = "" if n == "-" else vlib.dec(n)
            elif tag == "FIELD":
                c = int(p[1])
                d = kv(p[4:])
                if p[3] == "D":
                    self.items[c]["fields"].append({"kind": "D", "name": "" if d["name"] == "-" else vlib.dec(d["name"]), "ty": int(d["ty"]), "bitoff": int(d["bitoff"])})
                else:
                    self.items[c]["fields"].append({"kind": "U", "nth": int(d["nth"]), "size": int(d["size"]), "align": int(d["align"]), "bitfields": []})
            elif tag == "BITF":
                c = int(p[1])
                d = kv(p[3:])
                self.items[c]["fields"][int(p[2])]["bitfields"].append({"name": "" if d["name"] == "-" else vlib.dec(d["name"]), "ty": int(d["ty"]), "off": int(d["off"]), "width": int(d["width"])})
            elif tag == "EDGE":
                self.edges.setdefault(int(p[1]), []).append((int(p[2]), p[3]))
            elif tag == "RES":
                self.res.setdefault(p[1], {})[int(p[2])] = p[3]
            elif tag == "FIXPOINT-UNSTABLE-CONSULTED":
                d = kv(p[1:])
                self.consulted.append((d.get("analysis"), int(d.get("item", "-1"))))
            elif tag == "RAN":
                self.ran[p[1]] = p[2] == "1"
            elif tag == "UNSTABLE":
                self.unstable.append((p[1], " ".join(p[2:])))
            elif tag == "ROOTS":
                self.roots = [int(x) for x in p[1].split(",") if x] if len(p) > 1 else []
            elif tag == "ROOTMOD":
                self.rootmod = int(p[1])
            elif tag == "END":
                self.complete = True
        self.allow = sorted(i for i, d in self.items.items() if d["allow"])
        self.codegen = sorted(i for i, d in self.items.items() if d["codegen"])

    # ---- Coq rendering
    def coq_item(self, i):
        d = self.items[i]
        opaque = "true" if d["opaque"] else "false"
        stdint = "true" if d.get("stdint") == "1" else "false"
        vt, size = "false", "None"
        if d["ikind"] == "module":
            k = "IModule"
        elif d["ikind"] == "function":
            k = "IFunction %s" % d["sig"]
        elif d["ikind"] == "var":
            k = "IVar %s" % d["ty"]
        else:
            t = d["tkind"]
            size = "None" if d["size"] < 0 else "(Some %d)" % d["size"]
            L = lambda xs: "[" + "; ".join(str(x) for x in xs) + "]"
            simple = {"Void": "KVoid", "NullPtr": "KNullPtr", "Opaque": "KOpaque", "Int": "KInt", "Float": "KFloat", "Complex": "KComplex",
                      "TypeParam": "KTypeParam", "ObjCInterface": "KObjCInterface", "ObjCId": "KObjCId", "ObjCSel": "KObjCSel", "UnresolvedTypeRef": "KUnresolved"}
            if t in simple:
                tk = simple[t]
            elif t in ("Alias", "Pointer", "BlockPointer", "Reference", "ResolvedTypeRef", "Vector"):
                tk = "(K%s %s)" % (t, d["inner"])
            elif t == "TemplateAlias":
                tk = "(KTemplateAlias %s %s)" % (d["inner"], L(idlist(d["params"])))
            elif t == "Array":
                tk = "(KArray %s %s %s)" % (d["inner"], d["len"], "true" if d["inner_canon_tparam"] == "1" else "false")
            elif t == "Function":
                tk = "(KFunction %s %s)" % (d["ret"], L(idlist(d["args"])))
            elif t == "Enum":
                tk = "(KEnum %s)" % ("None" if d["repr"] == "-1" else "(Some %s)" % d["repr"])
            elif t == "TemplateInstantiation":
                tk = "(KInst %s %s)" % (d["def"], L(idlist(d["args"])))
            elif t == "Comp":
                vt = "true" if d.get("has_vtable_ptr") == "1" else "false"
                fs = []
                for f in d["fields"]:
                    if f["kind"] == "D":
                        fs.append("FData %d" % f["ty"])
                    else:
                        fs.append("FUnit %s" % L(b["ty"] for b in f["bitfields"]))
                B = lambda x: "true" if d[x] == "1" else "false"
                tk = ("(KComp {| c_union := %s; c_own_virtual := %s; c_own_dtor := %s; c_bases := %s; c_fields := [%s]; c_all_tparams := %s; "
                      "c_inner_types := %s; c_inner_vars := %s; c_methods := %s; c_dtor := %s; c_ctors := %s |})") % (
                    "true" if d["kind"] == "union" else "false", B("own_virtual"), B("own_dtor"), L(idlist(d["bases"])), "; ".join(fs),
                    L(idlist(d["all_tparams"])), L(idlist(d["inner_types"])), L(idlist(d["inner_vars"])), L(idlist(d["methods"])),
                    "None" if d["dtor"] == "-1" else "(Some %s)" % d["dtor"], L(idlist(d["ctors"])))
            else:
                raise ValueError("unknown type kind " + t)
            k = "IType %s" % tk
        return "{| i_kind := %s; i_opaque := %s; i_stdint := %s; i_vtable_ptr := %s; i_layout_size := %s |}" % (k, opaque, stdint, vt, size)

    def coq_items(self):
        return "[" + ";\n ".join("(%d, %s)" % (i, self.coq_item(i)) for i in sorted(self.items)) + "]"

    def coq_edges(self):
        return "[" + ";\n ".join("(%d, [%s])" % (i, "; ".join("(%d, %d)" % (t, EDGE.index(k)) for t, k in es)) for i, es in sorted(self.edges.items())) + "]"


def run_dump(bindgen, header, flags=(), clang_args=(), timeout=120, cwd=None, log=None):
    """run the hooks-on CLI with the dump enabled; returns (rc, stdout, stderr, Dump or None)"""
    import tempfile
    own = log is None
    if own:
        fd, log = tempfile.mkstemp(prefix="dump_", dir=vlib.CACHE)
        os.close(fd)
    open(log, "w").close()
    rc, out, err = vlib.sh2([bindgen, header] + list(flags) + ["--"] + list(clang_args), timeout=timeout, cwd=cwd, env={"BINDGEN_VERIF_LOG": log})
    txt = open(log, errors="replace").read()
    if own:
        os.remove(log)
    d = Dump(txt) if txt else None
    return rc, out, err, d
