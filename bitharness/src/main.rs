// Drives the eight entry points of __BindgenBitfieldUnit, compiled verbatim from
// /repo/bindgen/codegen/bitfield_unit.rs, over an enumerated case space and
// prints one line per case (format: see extract/driver_c03.ml).
#![allow(dead_code, clippy::all)]
include!(concat!(env!("VERIF_REPO"), "/bindgen/codegen/bitfield_unit.rs"));

mod const_table;

use std::io::{self, Write};
use std::panic;

struct Rng(u64);
impl Rng {
    fn next(&mut self) -> u64 {
        self.0 ^= self.0 << 13;
        self.0 ^= self.0 >> 7;
        self.0 ^= self.0 << 17;
        self.0
    }
}

fn rt<const N: usize>(op: u8, off: usize, w: u8, val: u64, st: &mut [u8]) -> u64 {
    let mut arr = [0u8; N];
    arr.copy_from_slice(st);
    let mut unit = __BindgenBitfieldUnit::<[u8; N]>::new(arr);
    let r = match op {
        0 => unit.get(off, w),
        1 => unsafe { __BindgenBitfieldUnit::<[u8; N]>::raw_get(&unit as *const _, off, w) },
        2 => {
            unit.set(off, w, val);
            0
        }
        3 => {
            unsafe { __BindgenBitfieldUnit::<[u8; N]>::raw_set(&mut unit as *mut _, off, w, val) };
            0
        }
        _ => unreachable!(),
    };
    let bytes: [u8; N] = unsafe { core::mem::transmute_copy(&unit) };
    st.copy_from_slice(&bytes);
    r
}

pub fn cc<const N: usize, const OFF: usize, const W: u8>(op: u8, st: &mut [u8], val: u64) -> u64 {
    let mut arr = [0u8; N];
    arr.copy_from_slice(st);
    let mut unit = __BindgenBitfieldUnit::<[u8; N]>::new(arr);
    let r = match op {
        4 => unit.get_const::<OFF, W>(),
        5 => unsafe { __BindgenBitfieldUnit::<[u8; N]>::raw_get_const::<OFF, W>(&unit as *const _) },
        6 => {
            unit.set_const::<OFF, W>(val);
            0
        }
        7 => {
            unsafe { __BindgenBitfieldUnit::<[u8; N]>::raw_set_const::<OFF, W>(&mut unit as *mut _, val) };
            0
        }
        _ => unreachable!(),
    };
    let bytes: [u8; N] = unsafe { core::mem::transmute_copy(&unit) };
    st.copy_from_slice(&bytes);
    r
}

fn call_rt(op: u8, n: usize, off: usize, w: u8, val: u64, st: &mut [u8]) -> u64 {
    macro_rules! d { ($($k:literal)*) => { match n { $($k => rt::<$k>(op, off, w, val, st),)* _ => unreachable!() } } }
    d!(1 2 3 4 5 6 7 8 9 10 11 12 13 14 15 16)
}

fn emit(out: &mut impl Write, op: u8, n: usize, off: usize, w: u8, val: u64, st: &[u8]) {
    let mut after = st.to_vec();
    let r = panic::catch_unwind(panic::AssertUnwindSafe(|| {
        if op < 4 {
            Some(call_rt(op, n, off, w, val, &mut after))
        } else {
            const_table::call_const(op, n, off, w, &mut after, val)
        }
    }));
    let mut line = format!("{} {} {} {} {} {}", op, n, off, w, val >> 32, val & 0xffff_ffff);
    for b in st {
        line.push_str(&format!(" {}", b));
    }
    match r {
        Ok(Some(r)) => {
            line.push_str(&format!(" | R {} {}", r >> 32, r & 0xffff_ffff));
            for b in &after {
                line.push_str(&format!(" {}", b));
            }
        }
        Ok(None) => return, // (n, off, w) not in the compiled const table
        Err(_) => line.push_str(" | P"),
    }
    writeln!(out, "{}", line).unwrap();
}

fn values(w: u8, nrand: usize, rng: &mut Rng) -> Vec<u64> {
    let mut v = vec![0u64, 1, u64::MAX, 0xAAAA_AAAA_AAAA_AAAA, 0x5555_5555_5555_5555];
    if w < 64 {
        v.push(1u64 << (w - 1).min(63));
        v.push((1u64 << w) - 1);
        v.push(1u64 << w);
    } else {
        v.push(1u64 << 63);
    }
    for _ in 0..nrand {
        v.push(rng.next());
    }
    v
}

fn main() {
    // args: <rt|const> <n_lo> <n_hi> <seed> <nrand> [allow-unfit]
    let a: Vec<String> = std::env::args().collect();
    let mode = a[1].as_str();
    let n_lo: usize = a[2].parse().unwrap();
    let n_hi: usize = a[3].parse().unwrap();
    let seed: u64 = a[4].parse().unwrap();
    let nrand: usize = a[5].parse().unwrap();
    panic::set_hook(Box::new(|_| {}));
    let stdout = io::stdout();
    let mut out = io::BufWriter::with_capacity(1 << 20, stdout.lock());
    let mut rng = Rng(seed.wrapping_mul(0x9E37_79B9_7F4A_7C15) | 1);
    let ops: &[u8] = if mode == "rt" { &[0, 1, 2, 3] } else { &[4, 5, 6, 7] };
    for n in n_lo..=n_hi {
        for off in 0..8 * n {
            for w in 1..=64usize {
                if (off + w + 7) / 8 > n {
                    break;
                }
                let w = w as u8;
                if mode == "const" && !const_table::has(n, off, w) {
                    continue;
                }
                let mut bgs: Vec<Vec<u8>> = vec![vec![0u8; n], vec![0xFFu8; n]];
                for _ in 0..nrand.max(1) {
                    bgs.push((0..n).map(|_| rng.next() as u8).collect());
                }
                let vals = values(w, nrand, &mut rng);
                for &op in ops {
                    if op & 2 == 0 {
                        for bg in &bgs {
                            emit(&mut out, op, n, off, w, 0, bg);
                        }
                    } else {
                        for bg in &bgs {
                            for &v in &vals {
                                emit(&mut out, op, n, off, w, v, bg);
                            }
                        }
                    }
                }
            }
        }
    }
    out.flush().unwrap();
}
