# inventory of the edges the IR hands to a tracer (C09 / C10 / C07: every reachability theorem is about the graph these edges form)
#
# For every `impl Trace for T` in bindgen/ir/*.rs: each `tracer.visit(..)` / `tracer.visit_kind(.., EdgeKind::K)` call of its `trace`
# function, with the chain of enclosing control headers (the `if` / `match` / `for` / arm texts between the function body and the
# call).  The list is compared with the committed table data/c09/trace_edges.json: an edge that appears, disappears or moves under
# another condition (e.g. "methods, unless pure virtual") is a broken tie — the dump-based correspondence cannot see such a change,
# because the model's traversal runs over the edges the implementation itself reports.
import os, re, sys, json
from rustlex import lex, balanced, LexError


class Shape(Exception):
    pass


def impl_blocks(toks):
    """(type name, body start, body end) for every `impl [<..>] Trace for T [<..>] {`"""
    out = []
    for i in range(len(toks) - 4):
        if toks[i][1] != "impl":
            continue
        j = i + 1
        if toks[j][1] == "<":
            depth = 0
            while j < len(toks):
                if toks[j][1] == "<":
                    depth += 1
                elif toks[j][1] == ">":
                    depth -= 1
                    if depth == 0:
                        j += 1
                        break
                j += 1
        if toks[j][1] != "Trace" or toks[j + 1][1] != "for":
            continue
        name = toks[j + 2][1]
        k = j + 3
        while k < len(toks) and toks[k][1] != "{":
            k += 1
        out.append((name, k, balanced(toks, k)))
    return out


def trace_fn(toks, s, e):
    for i in range(s, e - 2):
        if toks[i][1] == "fn" and toks[i + 1][1] == "trace":
            j = i + 2
            depth = 0
            while j < e:
                t = toks[j][1]
                if t in "([":
                    depth += 1
                elif t in ")]":
                    depth -= 1
                elif t == "{" and depth == 0:
                    return j, balanced(toks, j)
                j += 1
    return None


def calls(toks, s, e):
    """visit calls inside toks[s:e] with their enclosing headers"""
    res = []
    stack = []       # (close index, header text)
    i = s + 1
    last_stmt = s + 1
    while i < e - 1:
        while stack and i >= stack[-1][0]:
            stack.pop()
        t = toks[i][1]
        if t == "{":
            hdr = " ".join(x[1] for x in toks[last_stmt:i])
            stack.append((balanced(toks, i) - 1, re.sub(r"\s+", " ", hdr).strip()))
            last_stmt = i + 1
        elif t in (";", "}"):
            last_stmt = i + 1
        elif t == "," and stack and stack[-1][1].startswith("match"):
            last_stmt = i + 1
        elif t in ("return", "continue", "break") and toks[i][0] == "ident":
            # early exits cut the edges that follow them
            res.append({"kind": "<%s>" % t, "receiver_args": "", "under": [h for _, h in stack if h]})
        elif t in ("visit", "visit_kind") and toks[i - 1][1] == "." and toks[i + 1][1] == "(":
            close = balanced(toks, i + 1)
            args = [x[1] for x in toks[i + 2:close - 1]]
            kind = "Generic"
            for q in range(len(args) - 2):
                if args[q] == "EdgeKind" and args[q + 1] == "::":
                    kind = args[q + 2]
            what = " ".join(args)
            if t == "visit_kind" and kind == "Generic":
                raise Shape("visit_kind without a literal EdgeKind: %s" % what)
            # an arm `PAT => tracer.visit(..)` without braces: the arm pattern is part of the condition
            arm = " ".join(x[1] for x in toks[last_stmt:i - 2]) if any(x[1] == "=>" for x in toks[last_stmt:i]) else ""
            conds = [h for _, h in stack if h] + ([arm] if arm else [])
            res.append({"kind": kind, "receiver_args": what[:80], "under": conds})
        i += 1
    return res


def main(repo):
    out = {}
    for d, _, fs in sorted(os.walk(os.path.join(repo, "bindgen", "ir"))):
        for f in sorted(fs):
            if not f.endswith(".rs") or f.startswith("verif_"):
                continue
            p = os.path.join(d, f)
            src = open(p).read()
            if "Trace for" not in src:
                continue
            toks = lex(src)
            for name, s, e in impl_blocks(toks):
                tf = trace_fn(toks, s, e)
                if tf is None:
                    raise Shape("impl Trace for %s without a trace fn" % name)
                out["%s:%s" % (os.path.relpath(p, repo), name)] = calls(toks, tf[0], tf[1])
    if len(out) < 8:
        raise Shape("only %d Trace impls found" % len(out))
    return out


if __name__ == "__main__":
    r = main(sys.argv[1])
    if len(sys.argv) > 2:
        json.dump(r, open(sys.argv[2], "w"), indent=1, sort_keys=True)
    for k, v in sorted(r.items()):
        print(k)
        for c in v:
            print("   ", c["kind"], "|", c["receiver_args"][:50], "|", " // ".join(c["under"])[:160])
