# inventory of iteration sites over hash containers and of process-wide state in /repo/bindgen (C11)
#
# 1. CONTAINERS: every identifier declared with a hash-container type anywhere in bindgen/ (struct fields, let bindings,
#    parameters, functions returning one), with its hasher class:
#       Random    std::collections::HashMap / HashSet with RandomState (spelled StdHashMap / std::collections::Hash*)
#       Fx        crate::HashMap / crate::HashSet (rustc_hash: deterministic given the insertion history)
#    and, for Fx containers, whether the key type is address-dependent (Cursor / *const / usize from a pointer): PtrKeyed.
# 2. SITES: every place where such an identifier is iterated: `.iter() .iter_mut() .keys() .values() .values_mut()
#    .into_iter() .into_keys() .into_values() .drain() .retain(` after the identifier (through `self.`, `ctx.`, `()`,
#    `.as_ref()`, `.unwrap()`, `.borrow()`, `.borrow_mut()`, `.lock()`), or `for PAT in [&[mut]] <path ending in it>`.
# 3. STATICS: every `static` item / thread_local / OnceLock / lazy cell (process-wide state).
# Unknown spellings raise Shape (fail closed).  The result is keyed so that a new site cannot be missed silently:
# props/c11.py compares it with the committed classification table data/c11/sites.json.
import os, re, sys
from rustlex import lex, balanced, LexError
from tr_c17 import fn_spans


class Shape(Exception):
    pass


HASH_TYPES = {"HashMap": "Fx", "HashSet": "Fx", "StdHashMap": "Random", "StdHashSet": "Random", "FxHashMap": "Fx", "FxHashSet": "Fx", "ItemSet": None}
ITER_METHODS = {"iter", "iter_mut", "keys", "values", "values_mut", "into_iter", "into_keys", "into_values", "drain", "retain"}
THROUGH = {"as_ref", "as_mut", "unwrap", "borrow", "borrow_mut", "lock", "expect", "clone", "as_deref"}


def files(repo):
    for d, _, fs in sorted(os.walk(os.path.join(repo, "bindgen"))):
        for f in sorted(fs):
            if f.endswith(".rs") and f != "build.rs" and not f.startswith("verif_"):
                yield os.path.join(d, f)


def type_tokens(toks, i):
    """tokens of a type starting at i, up to a `,` `;` `=` `)` `{` at angle/paren depth 0"""
    depth, j, out = 0, i, []
    while j < len(toks):
        t = toks[j][1]
        if t in ("<", "(", "["):
            depth += 1
        elif t in (">", ")", "]"):
            if depth == 0:
                break
            depth -= 1
        elif t == ">>":
            if depth <= 1:
                out.append(t)
                j += 1
                break
            depth -= 2
        elif depth == 0 and t in (",", ";", "=", "{", "where"):
            break
        out.append(t)
        j += 1
    return out


STD_IMPORTED = set()      # names imported from std::collections in the file being scanned (then a bare HashMap is the std one)


def std_imports(toks):
    names = set()
    for i in range(len(toks) - 5):
        if toks[i][1] == "use" and toks[i + 1][1] == "std" and toks[i + 3][1] == "collections":
            j = i + 5
            depth = 0
            while j < len(toks) and toks[j][1] != ";":
                if toks[j][0] == "ident" and toks[j][1] in ("HashMap", "HashSet") and not (toks[j + 1][1] == "as"):
                    names.add(toks[j][1])
                j += 1
    return names


def hasher_of(ty):
    """hasher class of a type token list, or None if it is not a hash container (looks through Option/RefCell/&/Box/Rc/Arc/Mutex)"""
    for k, t in enumerate(ty):
        if t in ("HashMap", "HashSet", "FxHashMap", "FxHashSet", "StdHashMap", "StdHashSet"):
            # std::collections::HashMap spelled with a path
            std = (k >= 2 and ty[k - 1] == "::" and ty[k - 2] == "collections") or t in STD_IMPORTED
            cls = "Random" if (std or t.startswith("Std")) else "Fx"
            key = ty[k + 2] if k + 2 < len(ty) and ty[k + 1] == "<" else "?"
            if cls == "Fx" and key in ("Cursor", "*"):
                cls = "PtrKeyed"
            return cls, key
    return None


def containers(repo):
    decl = {}   # ident -> set of (hasher class, key type, file)
    for p in files(repo):
        src = open(p).read()
        if "Hash" not in src:
            continue
        toks = lex(src)
        rel = os.path.relpath(p, repo)
        STD_IMPORTED.clear()
        STD_IMPORTED.update(std_imports(toks))
        for i in range(1, len(toks) - 2):
            k, t = toks[i]
            # name: Type   (fields, parameters, typed lets)
            if k == "ident" and toks[i + 1][1] == ":" and toks[i + 2][1] != ":" and toks[i - 1][1] != ":":
                h = hasher_of(type_tokens(toks, i + 2))
                if h:
                    decl.setdefault(t, set()).add((h[0], h[1], rel))
            # let [mut] name = HashMap::new() / default() / with_capacity / ...collect::<HashMap<..>>()
            if t == "let":
                j = i + 1
                if toks[j][1] == "mut":
                    j += 1
                if toks[j][0] == "ident" and toks[j + 1][1] == "=":
                    # scan the initialiser up to `;`
                    e = j + 2
                    depth = 0
                    init = []
                    while e < len(toks):
                        x = toks[e][1]
                        if x in "([{":
                            depth += 1
                        elif x in ")]}":
                            depth -= 1
                        elif x == ";" and depth == 0:
                            break
                        init.append(x)
                        e += 1
                    h = None
                    if init and init[0] in ("HashMap", "HashSet", "StdHashMap", "FxHashMap", "FxHashSet") and len(init) > 2 and init[1] == "::":
                        h = ("Random" if (init[0].startswith("Std") or init[0] in STD_IMPORTED) else "Fx", "?")
                    for q in range(len(init) - 3):
                        if init[q] == "collect" and init[q + 1] == "::" and init[q + 2] == "<":
                            hh = hasher_of(init[q + 3:])
                            if hh and init[q + 3] in ("HashMap", "HashSet", "StdHashMap", "FxHashMap", "FxHashSet"):
                                h = hh
                    if h:
                        decl.setdefault(toks[j][1], set()).add((h[0], h[1], rel))
            # fn name(..) -> [&][mut] Hash..<
            if t == "fn" and toks[i + 1][0] == "ident":
                j = i + 2
                while j < len(toks) and toks[j][1] != "(":
                    j += 1
                e = balanced(toks, j)
                if e < len(toks) and toks[e][1] == "->":
                    h = hasher_of(type_tokens(toks, e + 1))
                    if h:
                        decl.setdefault(toks[i + 1][1], set()).add((h[0], h[1], rel))
    return decl


def sites(repo, decl):
    out = []
    names = set(decl)
    for p in files(repo):
        src = open(p).read()
        toks = lex(src)
        rel = os.path.relpath(p, repo)
        spans = fn_spans(toks)

        def fn_at(i):
            fn = None
            for name, s, e in spans:
                if s <= i < e:
                    fn = name
            return fn
        seen = {}
        for i in range(len(toks) - 3):
            k, t = toks[i]
            if k != "ident" or t not in names:
                continue
            if toks[i - 1][1] in ("fn", "let", "mut") or toks[i + 1][1] == ":" and toks[i + 2][1] != ":":
                continue     # a declaration, not a use
            # method chain after the identifier
            j = i + 1
            if toks[j][1] == "(":
                j = balanced(toks, j)       # a call of a function that returns the container
            method = None
            while j + 1 < len(toks) and toks[j][1] == "." and toks[j + 1][0] == "ident":
                m = toks[j + 1][1]
                if m in ITER_METHODS:
                    method = m
                    break
                if m in THROUGH and toks[j + 2][1] == "(":
                    j = balanced(toks, j + 2)
                    continue
                break
            if toks[j][1] == "?" and method is None:
                pass
            if method is None:
                # `for PAT in [&[mut]] path.to.name {`  or  `.. in name.as_ref().unwrap() {`
                b = i - 1
                while b > 0 and (toks[b][1] in (".", "&", "mut", "self", "ctx", "::") or toks[b][0] == "ident" and toks[b + 1][1] in (".", "::")):
                    b -= 1
                if toks[b][1] == "in":
                    # make sure a `for` opens this clause
                    q = b
                    depth = 0
                    while q > 0 and not (toks[q][1] == "for" and depth == 0):
                        if toks[q][1] in (")", "]"):
                            depth += 1
                        elif toks[q][1] in ("(", "["):
                            depth -= 1
                        if toks[q][1] in (";", "{", "}"):
                            break
                        q -= 1
                    if toks[q][1] == "for":
                        # the iterated expression must END with this identifier (possibly through THROUGH methods)
                        e = j
                        if toks[e][1] == "{":
                            method = "for"
            if method is None:
                continue
            fn = fn_at(i)
            key = (rel, fn, t, method)
            seen[key] = seen.get(key, 0) + 1
            out.append({"file": rel, "fn": fn, "container": t, "method": method, "nth": seen[key],
                        "hashers": sorted({h for h, _, _ in decl[t]}), "keys": sorted({k2 for _, k2, _ in decl[t]})})
    return out


def statics(repo):
    out = []
    for p in files(repo):
        src = open(p).read()
        toks = lex(src)
        rel = os.path.relpath(p, repo)
        spans = fn_spans(toks)
        for i in range(len(toks) - 2):
            t = toks[i][1]
            if t == "static" and toks[i + 1][0] == "ident" and toks[i - 1][1] not in ("&", "'", "<", ",", "+", ":") and toks[i + 1][1] not in ("str",):
                name = toks[i + 2][1] if toks[i + 1][1] == "mut" else toks[i + 1][1]
                if toks[i + 1][1] == "ref":
                    name = toks[i + 2][1]
                ty = type_tokens(toks, i + 3) if toks[i + 2][1] == ":" else (type_tokens(toks, i + 4) if toks[i + 3][1] == ":" else [])
                fn = None
                for nm, s, e in spans:
                    if s <= i < e:
                        fn = nm
                out.append({"file": rel, "fn": fn, "name": name, "mutable": toks[i + 1][1] == "mut", "type": " ".join(ty)[:80]})
            if t == "thread_local" and toks[i + 1][1] == "!":
                out.append({"file": rel, "fn": None, "name": "thread_local!", "mutable": True, "type": ""})
    return out


def main(repo):
    decl = containers(repo)
    return {"containers": {k: sorted(v) for k, v in sorted(decl.items())}, "sites": sites(repo, decl), "statics": statics(repo)}


if __name__ == "__main__":
    import json
    r = main(sys.argv[1])
    print(json.dumps(r["containers"], indent=0)[:3000])
    for s in r["sites"]:
        print("SITE", s["file"], s["fn"], s["container"], s["method"], s["nth"], s["hashers"], s["keys"])
    for s in r["statics"]:
        print("STATIC", s)
