# features.rs -> coq/gen/C14_Table.v
import os, re, sys
from rustlex import lex, balanced, find_seq, LexError


class Shape(Exception):
    pass


def invocation(toks, name):
    """token span of the body of `name! { ... }` that is not the macro_rules! definition"""
    i = 0
    while True:
        i = find_seq(toks, [name, "!", "{"], i)
        if i < 0:
            raise Shape("no invocation of %s!" % name)
        if i >= 2 and toks[i - 2][1] == "macro_rules":
            i += 1
            continue
        end = balanced(toks, i + 2)
        return toks[i + 3:end - 1]


def parse_feats(body):
    """ident ((lit))|((lit))* (: #lit)? , ..."""
    feats, i = [], 0
    while i < len(body):
        k, t = body[i]
        if k != "ident":
            raise Shape("feature name expected, got %r" % t)
        name, eds = t, []
        i += 1
        while i < len(body) and body[i][1] == "(":
            if body[i + 1][0] != "num" or body[i + 2][1] != ")":
                raise Shape("edition literal expected after %s" % name)
            eds.append(int(body[i + 1][1]))
            i += 3
            if i < len(body) and body[i][1] == "|":
                i += 1
        if i < len(body) and body[i][1] == ":":
            if body[i + 1][1] != "#" or body[i + 2][0] != "num":
                raise Shape("': #<number>' expected after %s" % name)
            i += 3
        if i < len(body):
            if body[i][1] != ",":
                raise Shape("',' expected after feature %s, got %r" % (name, body[i][1]))
            i += 1
        feats.append((name, eds))
    return feats


def extract(src):
    toks = lex(src)
    # editions
    eb = invocation(toks, "define_rust_editions")
    editions, i = [], 0
    while i < len(eb):
        # Variant ( value ) => minor ,
        if not (eb[i][0] == "ident" and eb[i + 1][1] == "(" and eb[i + 2][0] == "num" and eb[i + 3][1] == ")"
                and eb[i + 4][1] == "=>" and eb[i + 5][0] == "num"):
            raise Shape("edition row shape")
        editions.append((int(eb[i + 2][1]), int(eb[i + 5][1])))
        i += 6
        if i < len(eb) and eb[i][1] == ",":
            i += 1
    tb = invocation(toks, "define_rust_targets")
    i = 0
    nightly, rows = None, []
    while i < len(tb):
        if tb[i][1] == "Nightly" and tb[i + 1][1] == "=>" and tb[i + 2][1] == "{":
            end = balanced(tb, i + 2)
            nightly = parse_feats(tb[i + 3:end - 1])
            i = end
        elif tb[i][0] == "ident" and tb[i + 1][1] == "(" and tb[i + 2][0] == "num" and tb[i + 3][1] == ")" and tb[i + 4][1] == "=>" and tb[i + 5][1] == "{":
            end = balanced(tb, i + 5)
            rows.append((int(tb[i + 2][1]), parse_feats(tb[i + 6:end - 1])))
            i = end
        else:
            raise Shape("target row shape at %r" % (tb[i][1],))
        if i < len(tb) and tb[i][1] == ",":
            i += 1
    if nightly is None:
        raise Shape("no Nightly row")
    # the macro bodies whose semantics Model.v transcribes: fingerprint them so an edit is noticed
    import hashlib
    def span(name):
        j = find_seq(toks, ["macro_rules", "!", name])
        if j < 0:
            raise Shape("macro %s not found" % name)
        e = balanced(toks, j + 3)
        return " ".join(t for _, t in toks[j:e])
    fp = {
        "define_rust_targets": hashlib.sha256(span("define_rust_targets").encode()).hexdigest()[:16],
        "define_rust_editions": hashlib.sha256(span("define_rust_editions").encode()).hexdigest()[:16],
    }
    return editions, nightly, rows, fp


def coq_feats(fs):
    return "[" + "; ".join('("%s", [%s])' % (n, "; ".join(str(e) for e in eds)) for n, eds in fs) + "]"


def to_coq(editions, nightly, rows):
    s = "(* generated from /repo/bindgen/features.rs by translator/tr_c14.py -- do not edit *)\n"
    s += "From Coq Require Import NArith List String.\nFrom BG Require Import C14.Model.\nImport ListNotations.\nOpen Scope N_scope.\nOpen Scope string_scope.\n\n"
    s += "Definition T : table := {|\n  editions := [%s];\n" % "; ".join("(%d, %d)" % e for e in editions)
    s += "  nightly_feats := %s;\n" % coq_feats(nightly)
    s += "  stable_rows := [\n    %s\n  ]\n|}.\n" % ";\n    ".join("(%d, %s)" % (m, coq_feats(fs)) for m, fs in rows)
    return s


def main(repo, out):
    src = open(os.path.join(repo, "bindgen/features.rs")).read()
    editions, nightly, rows, fp = extract(src)
    txt = to_coq(editions, nightly, rows)
    if not os.path.exists(out) or open(out).read() != txt:
        open(out, "w").write(txt)
    return editions, nightly, rows, fp


if __name__ == "__main__":
    print(main(sys.argv[1], sys.argv[2]))
