# postprocessing/{sort_semantically,merge_extern_blocks,mod}.rs -> coq/gen/C18_Table.v
import os, re, sys
from rustlex import lex, balanced, find_seq, LexError

KINDS = ["Const", "Enum", "ExternCrate", "Fn", "ForeignMod", "Impl", "Macro", "Mod", "Static", "Struct",
         "Trait", "TraitAlias", "Type", "Union", "Use", "Verbatim"]


class Shape(Exception):
    pass


def extract(repo):
    d = os.path.join(repo, "bindgen/codegen/postprocessing")
    # --- sort
    toks = lex(open(os.path.join(d, "sort_semantically.rs")).read())
    i = find_seq(toks, ["fn", "visit_items"])
    if i < 0:
        raise Shape("sort: no visit_items")
    j = find_seq(toks, ["items", ".", "sort_by_key", "("], i)
    if j < 0:
        raise Shape("sort: items.sort_by_key(...) (a stable sort) not found")
    if not (toks[j + 4][1] == "|" and toks[j + 5][1] == "item" and toks[j + 6][1] == "|" and toks[j + 7][1] == "match" and toks[j + 8][1] == "item" and toks[j + 9][1] == "{"):
        raise Shape("sort: key closure is not |item| match item {..}")
    end = balanced(toks, j + 9)
    body = toks[j + 10:end - 1]
    ranks, dflt, k = {}, None, 0
    while k < len(body):
        if body[k][1] == "_" and body[k + 1][1] == "=>" and body[k + 2][0] == "num":
            dflt = int(body[k + 2][1])
            k += 3
        elif (body[k][1] == "Item" and body[k + 1][1] == "::" and body[k + 2][0] == "ident" and body[k + 3][1] == "(" and body[k + 4][1] == "_"
              and body[k + 5][1] == ")" and body[k + 6][1] == "=>" and body[k + 7][0] == "num"):
            name = body[k + 2][1]
            if name not in KINDS:
                raise Shape("sort: unknown syn::Item variant %s" % name)
            if name in ranks:
                raise Shape("sort: duplicate arm %s" % name)
            ranks[name] = int(body[k + 7][1])
            k += 8
        else:
            raise Shape("sort: unexpected arm at %r" % (body[k][1],))
        if k < len(body) and body[k][1] == ",":
            k += 1
    if dflt is None:
        raise Shape("sort: no wildcard arm")
    # recursion into modules must be there
    if find_seq(toks, ["fn", "visit_item_mod_mut"]) < 0 or find_seq(toks, ["fn", "visit_file_mut"]) < 0:
        raise Shape("sort: visitor does not cover file + nested modules")
    # --- merge: which fields form the key
    mt = lex(open(os.path.join(d, "merge_extern_blocks.rs")).read())
    fields = []
    k = 0
    while True:
        k = find_seq(mt, ["extern_block", "."], k)
        if k < 0:
            break
        if mt[k + 2][0] == "ident" and mt[k + 3][1] == "==" and mt[k + 4][1] == mt[k + 2][1]:
            fields.append(mt[k + 2][1])
        k += 1
    if not fields:
        raise Shape("merge: key comparison extern_block.<f> == <f> not found")
    if find_seq(mt, ["fn", "visit_item_mod_mut"]) < 0 or find_seq(mt, ["fn", "visit_file_mut"]) < 0:
        raise Shape("merge: visitor does not cover file + nested modules")
    # --- pass order
    pt = lex(open(os.path.join(d, "mod.rs")).read())
    k = find_seq(pt, ["const", "PASSES"])
    if k < 0:
        raise Shape("mod: PASSES not found")
    k2 = find_seq(pt, ["[", "pass", "!"], k)
    if k2 < 0:
        raise Shape("mod: PASSES initialiser shape")
    e = balanced(pt, k2)
    order = [pt[x + 3][1] for x in range(k2, e) if pt[x][1] == "pass" and pt[x + 1][1] == "!" and pt[x + 2][1] == "("]
    return ranks, dflt, fields, order


def main(repo, out):
    ranks, dflt, fields, order = extract(repo)
    s = "(* generated from /repo/bindgen/codegen/postprocessing/*.rs by translator/tr_c18.py -- do not edit *)\n"
    s += "From Coq Require Import NArith List.\nImport ListNotations.\nOpen Scope N_scope.\n\n"
    s += "(* kind index (see C18/Model.v) -> sort key *)\nDefinition rank_table : list (N * N) := [%s].\n" % "; ".join(
        "(%d, %d)" % (KINDS.index(n), r) for n, r in sorted(ranks.items(), key=lambda x: KINDS.index(x[0])))
    s += "Definition default_rank : N := %d.\n" % dflt
    if not os.path.exists(out) or open(out).read() != s:
        open(out, "w").write(s)
    return ranks, dflt, fields, order


if __name__ == "__main__":
    print(main(sys.argv[1], sys.argv[2]))
