# consider_edge filters of the analyses + EdgeKind enum -> coq/gen/C07_Table.v
import os, re, sys
from rustlex import lex, balanced, find_seq, LexError

EDGE = ["Generic", "TemplateParameterDefinition", "TemplateDeclaration", "TemplateArgument", "BaseMember", "Field", "InnerType",
        "InnerVar", "Method", "Constructor", "Destructor", "FunctionReturn", "FunctionParameter", "VarType", "TypeReference"]
FILES = {"vtable": "has_vtable.rs", "sizedness": "sizedness.rs", "destructor": "has_destructor.rs", "float": "has_float.rs",
         "tparam_array": "has_type_param_in_array.rs", "derive": "derive.rs:consider_edge_default",
         "used_tparams": "template_params.rs"}


class Shape(Exception):
    pass


def enum_variants(repo):
    toks = lex(open(os.path.join(repo, "bindgen/ir/traversal.rs")).read())
    i = find_seq(toks, ["enum", "EdgeKind", "{"])
    if i < 0:
        raise Shape("enum EdgeKind not found")
    e = balanced(toks, i + 2)
    body = toks[i + 3:e - 1]
    vs = [t for k, t in body if k == "ident"]
    return vs


def filter_of(repo, fname):
    fname, _, fn = fname.partition(":")
    fn = fn or "consider_edge"
    toks = lex(open(os.path.join(repo, "bindgen/ir/analysis", fname)).read())
    i = find_seq(toks, ["fn", fn, "("])
    if i < 0:
        raise Shape("%s: consider_edge not found" % fname)
    j = i
    while toks[j][1] != "{":
        j += 1
    e = balanced(toks, j)
    body = toks[j + 1:e - 1]
    txt = " ".join(t for _, t in body)
    names = []
    if body[0][1] == "matches" and body[1][1] == "!":
        inner = body[3:balanced(body, 2) - 1]
        # kind , EdgeKind::A | EdgeKind::B ...
        if inner[0][1] != "kind" or inner[1][1] != ",":
            raise Shape("%s: matches!(kind, ...) shape" % fname)
        k = 2
        while k < len(inner):
            if inner[k][1] == "EdgeKind" and inner[k + 1][1] == "::" and inner[k + 2][0] == "ident":
                names.append(inner[k + 2][1])
                k += 3
                if k < len(inner) and inner[k][1] == "|":
                    k += 1
            else:
                raise Shape("%s: pattern %r" % (fname, inner[k][1]))
        return names
    if body[0][1] == "match" and body[1][1] == "kind" and body[2][1] == "{":
        inner = body[3:balanced(body, 2) - 1]
        k, cur = 0, []
        while k < len(inner):
            if inner[k][1] == "EdgeKind" and inner[k + 1][1] == "::" and inner[k + 2][0] == "ident":
                cur.append(inner[k + 2][1])
                k += 3
                if inner[k][1] == "|":
                    k += 1
                elif inner[k][1] == "=>":
                    val = inner[k + 1][1]
                    if val not in ("true", "false"):
                        raise Shape("%s: arm value %r" % (fname, val))
                    if val == "true":
                        names += cur
                    cur = []
                    k += 2
                    if k < len(inner) and inner[k][1] == ",":
                        k += 1
            elif inner[k][1] == "_" and inner[k + 1][1] == "=>":
                if inner[k + 2][1] != "false":
                    raise Shape("%s: wildcard arm must be false" % fname)
                k += 3
                if k < len(inner) and inner[k][1] == ",":
                    k += 1
            else:
                raise Shape("%s: match arm at %r" % (fname, inner[k][1]))
        return names
    raise Shape("%s: consider_edge body shape: %s" % (fname, txt[:80]))


def main(repo, out=None):
    vs = enum_variants(repo)
    if sorted(vs) != sorted(EDGE):
        raise Shape("EdgeKind variants changed: %s" % vs)
    filt = {}
    for a, f in FILES.items():
        filt[a] = filter_of(repo, f)
        for n in filt[a]:
            if n not in EDGE:
                raise Shape("%s: unknown edge kind %s" % (a, n))
    if out:
        s = "(* generated from /repo/bindgen/ir/analysis/*.rs by translator/tr_c07.py -- do not edit *)\n"
        s += "From Coq Require Import NArith List Bool.\nImport ListNotations.\nOpen Scope N_scope.\n\n"
        for a in FILES:
            s += "(* %s *)\nDefinition filter_%s (k : N) : bool := existsb (N.eqb k) [%s].\n" % (
                ", ".join(filt[a]), a, "; ".join(str(EDGE.index(n)) for n in filt[a]))
        if not os.path.exists(out) or open(out).read() != s:
            open(out, "w").write(s)
    return filt


if __name__ == "__main__":
    print(main(sys.argv[1], sys.argv[2] if len(sys.argv) > 2 else None))
