# options/mod.rs (options! table + Builder methods) and options/cli.rs (clap struct + apply_args!)
# -> a table of rows used by C13 (coq/gen/C13_Table.v, harness/src/gen_builder.rs)
import os, re, sys, json
from rustlex import lex, balanced, find_seq, LexError


class Shape(Exception):
    pass


def text(toks):
    return " ".join(t for _, t in toks)


def split_top(toks, sep=","):
    """split a token list on sep at bracket depth 0 (also counts < > of generics loosely: no)"""
    out, cur, depth = [], [], 0
    for k, t in toks:
        if k == "punct" and t in "([{":
            depth += 1
        elif k == "punct" and t in ")]}":
            depth -= 1
        if k == "punct" and t == sep and depth == 0:
            out.append(cur)
            cur = []
        else:
            cur.append((k, t))
    if cur:
        out.append(cur)
    return out


def parse_methods(mt):
    """Builder methods declared in a field's methods block: name, params [(name, type text)], the self.options.<field> they touch"""
    ms = []
    i = 0
    while i < len(mt):
        if mt[i][1] == "fn" and i + 2 < len(mt) and mt[i + 1][0] == "ident" and mt[i + 2][1] in ("<", "("):
            name = mt[i + 1][1]
            j = i + 2
            generics = []
            if mt[j][1] == "<":
                d = 0
                while True:
                    if mt[j][1] == "<":
                        d += 1
                    elif mt[j][1] in (">", ">>"):
                        d -= len(mt[j][1])
                        if d <= 0:
                            j += 1
                            break
                    generics.append(mt[j])
                    j += 1
            if mt[j][1] != "(":
                raise Shape("method %s: '(' expected" % name)
            e = balanced(mt, j)
            params = []
            for p in split_top(mt[j + 1:e - 1]):
                tt = text(p)
                if tt in ("mut self", "self", "& self", "& mut self"):
                    continue
                k = [x for x, (_, t) in enumerate(p) if t == ":"]
                if not k:
                    raise Shape("method %s: param shape %r" % (name, tt))
                params.append((text(p[:k[0]]), text(p[k[0] + 1:])))
            # body
            b = e
            while mt[b][1] != "{":
                b += 1
            be = balanced(mt, b)
            body = mt[b:be]
            touched = []
            for x in range(len(body) - 4):
                if body[x][1] == "self" and body[x + 1][1] == "." and body[x + 2][1] == "options" and body[x + 3][1] == "." and body[x + 4][0] == "ident":
                    if body[x + 4][1] not in touched:
                        touched.append(body[x + 4][1])
            ms.append({"name": name, "generics": text(generics), "params": params, "touches": touched, "body": text(body)})
            i = be
        else:
            i += 1
    return ms


def parse_options(repo):
    toks = lex(open(os.path.join(repo, "bindgen/options/mod.rs")).read())
    i = 0
    while True:
        i = find_seq(toks, ["options", "!", "{"], i)
        if i < 0:
            raise Shape("options! invocation not found")
        if i >= 1 and toks[i - 1][1] == "macro_rules":
            i += 1
            continue
        if i >= 2 and toks[i - 2][1] == "macro_rules":
            i += 1
            continue
        break
    end = balanced(toks, i + 2)
    body = toks[i + 3:end - 1]
    fields = []
    k = 0
    while k < len(body):
        # skip doc attributes  # [ doc = ... ]  (lexer drops /// comments already)
        if body[k][1] == "#":
            k = balanced(body, k + 1)
            continue
        if body[k][0] != "ident" or body[k + 1][1] != ":":
            raise Shape("field expected at %r" % text(body[k:k + 4]))
        name = body[k][1]
        j = k + 2
        ty = []
        d = 0
        while not (body[j][1] == "{" and d == 0):
            if body[j][1] == "<":
                d += 1
            elif body[j][1] in (">", ">>"):
                d -= len(body[j][1])
            ty.append(body[j])
            j += 1
        fe = balanced(body, j)
        inner = body[j + 1:fe - 1]
        # items: default: expr, methods: {..}, as_args: expr
        default, methods, as_args = None, None, None
        x = 0
        while x < len(inner):
            if inner[x][1] == "default" and inner[x + 1][1] == ":":
                y = x + 2
                d = 0
                while not (inner[y][1] == "," and d == 0):
                    if inner[y][1] in "([{":
                        d += 1
                    elif inner[y][1] in ")]}":
                        d -= 1
                    y += 1
                default = text(inner[x + 2:y])
                x = y + 1
            elif inner[x][1] == "methods" and inner[x + 1][1] == ":":
                me = balanced(inner, x + 2)
                methods = parse_methods(inner[x + 3:me - 1])
                x = me
                if x < len(inner) and inner[x][1] == ",":
                    x += 1
            elif inner[x][1] == "as_args" and inner[x + 1][1] == ":":
                as_args = inner[x + 2:]
                if as_args and as_args[-1][1] == ",":
                    as_args = as_args[:-1]
                x = len(inner)
            else:
                raise Shape("field %s: unexpected item %r" % (name, inner[x][1]))
        if as_args is None or methods is None:
            raise Shape("field %s: missing methods/as_args" % name)
        fields.append({"name": name, "type": text(ty), "default": default, "methods": methods, "as_args": classify_as_args(name, as_args)})
        k = fe
        if k < len(body) and body[k][1] == ",":
            k += 1
    return fields


def classify_as_args(name, a):
    t = text(a)
    if len(a) == 1 and a[0][0] == "str":
        return {"kind": "flag", "flag": a[0][1].strip('"')}
    if t == "ignore":
        return {"kind": "ignore"}
    # |value, args| (!value).as_args(args, "--x")   /  value.as_args(args, "--x")
    m = re.match(r'^\| &? ?(\w+) , args \| \( ! (\w+) \) \. as_args \( args , ("[^"]*") \)$', t)
    if m and m.group(1) == m.group(2):
        return {"kind": "negflag", "flag": m.group(3).strip('"')}
    m = re.match(r'^\| &? ?(\w+) , args \| (\w+) \. as_args \( args , ("[^"]*") \)$', t)
    if m and m.group(1) == m.group(2):
        return {"kind": "flag", "flag": m.group(3).strip('"')}
    flags = [x[1].strip('"') for x in a if x[0] == "str" and x[1].startswith('"--')]
    return {"kind": "custom", "flags": flags, "text": t}


def parse_cli(repo):
    toks = lex(open(os.path.join(repo, "bindgen/options/cli.rs")).read())
    i = find_seq(toks, ["struct", "BindgenCommand", "{"])
    if i < 0:
        raise Shape("struct BindgenCommand not found")
    end = balanced(toks, i + 2)
    body = toks[i + 3:end - 1]
    args = []
    k = 0
    attrs = []
    while k < len(body):
        if body[k][1] == "#":
            e = balanced(body, k + 1)
            attrs.append(body[k + 2:e - 1])
            k = e
            continue
        if body[k][0] != "ident" or body[k + 1][1] != ":":
            raise Shape("cli field expected at %r" % text(body[k:k + 4]))
        name = body[k][1]
        j = k + 2
        d = 0
        ty = []
        while j < len(body) and not (body[j][1] == "," and d == 0):
            if body[j][1] == "<":
                d += 1
            elif body[j][1] in (">", ">>"):
                d -= len(body[j][1])
            ty.append(body[j])
            j += 1
        info = {"name": name, "type": text(ty).replace(" ", ""), "long": None, "short": None, "positional": True, "attrs": [text(a) for a in attrs]}
        for a in attrs:
            if a and a[0][1] in ("arg", "clap") and len(a) > 1 and a[1][1] == "(":
                inner = a[2:balanced(a, 1) - 1]
                for part in split_top(inner):
                    pt = text(part)
                    if pt == "long":
                        info["long"] = name.replace("_", "-")
                        info["positional"] = False
                    elif pt.startswith("long ="):
                        info["long"] = part[2][1].strip('"')
                        info["positional"] = False
                    elif pt == "short" or pt.startswith("short ="):
                        info["short"] = part[2][1].strip("'") if len(part) > 2 else name[0]
                        info["positional"] = False
                    elif pt.startswith("num_args"):
                        info["num_args"] = text(part[2:])
                    elif pt.startswith("value_parser"):
                        info["value_parser"] = text(part[2:])
                    elif pt.startswith("alias") or pt.startswith("visible_alias"):
                        info.setdefault("aliases", []).append(part[2][1].strip('"'))
                    elif pt.startswith("last"):
                        info["last"] = True
                        info["positional"] = True
                    elif pt.startswith("requires") or pt.startswith("value_name") or pt.startswith("help") or pt.startswith("hide") or pt.startswith("value_delimiter") or pt.startswith("default_value") or pt.startswith("action") or pt.startswith("conflicts_with"):
                        info.setdefault("other", []).append(pt)
                    else:
                        info.setdefault("other", []).append(pt)
        args.append(info)
        attrs = []
        k = j + 1
    # apply_args! invocation
    i = 0
    while True:
        i = find_seq(toks, ["apply_args", "!", "("], i)
        if i < 0:
            raise Shape("apply_args! invocation not found")
        if toks[i - 1][1] == "macro_rules":
            i += 1
            continue
        # the real one is `builder = apply_args!(builder { ... })`
        if toks[i + 3][1] == "builder" and toks[i + 4][1] == "{":
            break
        i += 1
    e = balanced(toks, i + 4)
    body = toks[i + 5:e - 1]
    applies = {}
    parts = []
    for part in split_top(body):
        if not part:
            continue
        if part[0][0] == "ident" and (len(part) == 1 or part[1][1] == "=>"):
            parts.append(part)
        elif parts:
            parts[-1] = parts[-1] + [("punct", ",")] + part
        else:
            raise Shape("apply_args: first arm shape")
    for part in parts:
        nm = part[0][1]
        if len(part) == 1:
            applies[nm] = {"method": nm, "form": "same"}
        elif part[1][1] == "=>":
            rest = part[2:]
            rt = text(rest)
            m = re.match(r"^Builder :: (\w+)$", rt)
            if m:
                applies[nm] = {"method": m.group(1), "form": "path"}
            else:
                m = re.match(r"^\| (\w+) , (\w+) \| \1 \. (\w+) \( ?(.*?) ?\)$", rt)
                if m:
                    applies[nm] = {"method": m.group(3), "form": "closure", "arg": m.group(4)}
                else:
                    applies[nm] = {"method": None, "form": "other", "text": rt}
        else:
            raise Shape("apply_args arm shape: %r" % text(part))
    # hand-written arms after apply_args!:  if let Some(x) = ARG { builder = builder.M(Some(x)); }  /  if ARG { builder = builder.M(); }
    for k in range(e, len(toks) - 16):
        if toks[k][1] == "if" and toks[k + 1][1] == "let" and toks[k + 2][1] == "Some" and toks[k + 3][1] == "(" and toks[k + 5][1] == ")" and toks[k + 6][1] == "=" and toks[k + 8][1] == "{":
            x, arg = toks[k + 4][1], toks[k + 7][1]
            b = toks[k + 9:k + 21]
            if text(b[:4]) == "builder = builder ." and b[5][1] == "(" and text(b[6:10]) == "Some ( %s )" % x and b[10][1] == ")":
                if arg not in applies:
                    applies[arg] = {"method": b[4][1], "form": "manual_some"}
        if toks[k][1] == "if" and toks[k + 1][0] == "ident" and toks[k + 2][1] == "{" and text(toks[k + 3:k + 7]) == "builder = builder .":
            arg = toks[k + 1][1]
            if toks[k + 8][1] == "(" and toks[k + 9][1] == ")" and arg not in applies:
                applies[arg] = {"method": toks[k + 7][1], "form": "manual_flag"}
    return args, applies


def method_effect(m, field):
    """what a Builder method does to self.options.<field>: ('param'|'const b'|'some'|'push'|None)"""
    b = m["body"]
    f = re.escape(field)
    pn = [p[0].replace("mut ", "").strip() for p in m["params"]]
    if re.search(r"self \. options \. %s = (true|false) ;" % f, b):
        return "const " + re.search(r"self \. options \. %s = (true|false) ;" % f, b).group(1)
    if len(pn) == 1 and re.search(r"self \. options \. %s = %s ;" % (f, re.escape(pn[0])), b) and m["params"][0][1] == "bool":
        return "param"
    if len(pn) == 1 and re.search(r"self \. options \. %s = Some \( %s(?: \. (?:into|to_owned|as_ref|to_string|into_boxed_str) \( \))* \) ;" % (f, re.escape(pn[0])), b):
        return "some"
    if len(pn) == 1 and re.search(r"self \. options \. %s = %s ;" % (f, re.escape(pn[0])), b) and m["params"][0][1].replace(" ", "").startswith("Option<"):
        return "optparam"
    if len(pn) == 1 and re.search(r"self \. options \. %s \. (insert|push) \( %s(?: \. into \( \))*(?: \. into_boxed_str \( \))? \) ;" % (f, re.escape(pn[0])), b):
        return "push"
    return None


def also_effects(m, field, passed):
    """secondary effects of a bool-param method when called with `passed` (True/False): [(other_field, bool)]"""
    out = []
    if len(m["params"]) != 1 or m["params"][0][1] != "bool":
        return out if len(m["touches"]) <= 1 else None
    pn = re.escape(m["params"][0][0].replace("mut ", "").strip())
    b = m["body"]
    rest = b
    for g in m["touches"]:
        if g == field:
            continue
        gg = re.escape(g)
        pos = re.search(r"if %s \{ self \. options \. %s = (?:%s|true) ; \}" % (pn, gg, pn), b)
        neg = re.search(r"if ! %s \{ self \. options \. %s = (?:%s|false) ; \}" % (pn, gg, pn), b)
        unc = re.search(r"(?<!\{ )self \. options \. %s = %s ;" % (gg, pn), b)
        if unc and not pos and not neg:
            out.append((g, bool(passed)))
        elif pos:
            if passed:
                out.append((g, True))
        elif neg:
            if not passed:
                out.append((g, False))
        else:
            return None
    return out


def build_tables(fields, cli, applies):
    """simple print rows, clap rows, and the list of everything left out (with the reason)"""
    fid = {f["name"]: i for i, f in enumerate(fields)}
    meth = {}
    for f in fields:
        for m in f["methods"]:
            meth.setdefault(m["name"], []).append((f, m))
    prows, skipped = [], []
    assigned = set()
    for f in fields:
        for m in f["methods"]:
            assigned.update(m["touches"])
    for f in fields:
        a = f["as_args"]
        if f["name"] not in assigned:
            skipped.append((f["name"], "field is never assigned by any Builder method (dead on the builder path)"))
            continue
        ty = f["type"].replace(" ", "")
        if a["kind"] == "ignore":
            skipped.append((f["name"], "as_args: ignore"))
            continue
        if a["kind"] == "custom":
            skipped.append((f["name"], "custom as_args closure"))
            continue
        if a["kind"] == "negflag":
            if ty != "bool" or f["default"] != "true":
                raise Shape("field %s: negated flag on a non-bool or default-false field" % f["name"])
            kind = "PNegFlag"
        elif ty == "bool":
            if f["default"] not in (None, "false"):
                raise Shape("field %s: plain flag on a default-true bool" % f["name"])
            kind = "PFlag"
        elif ty in ("RegexSet", "Vec<String>", "Vec<Box<str>>"):
            kind = "PMulti"
        elif ty in ("Option<String>", "Option<PathBuf>"):
            kind = "POpt"
        else:
            raise Shape("field %s: type %s has a literal-flag as_args but no AsArgs model" % (f["name"], ty))
        prows.append((fid[f["name"]], kind, a["flag"], f["name"]))
    crows, cskipped = [], []
    for c in cli:
        if c["long"] is None:
            continue
        ap = applies.get(c["name"])
        ty = c["type"]
        ar = "CBool" if ty == "bool" else "COpt" if ty.startswith("Option<") else "CVec" if ty.startswith("Vec<") else None
        if ar is None:
            raise Shape("cli arg %s: type %s" % (c["name"], ty))
        if ap is None or ap["method"] is None:
            cskipped.append((c["name"], "no apply_args arm / not a single builder method"))
            continue
        ms = meth.get(ap["method"], [])
        if len(ms) != 1:
            cskipped.append((c["name"], "builder method %s not found uniquely in options!" % ap["method"]))
            continue
        f, m = ms[0]
        eff = method_effect(m, f["name"])
        if ap["form"] == "manual_some":
            if eff == "optparam" and ar == "COpt":
                crows.append(("--" + c["long"], ar, fid[f["name"]], "SetSome", c["name"], []))
            else:
                cskipped.append((c["name"], "manual Some-arm with effect %r" % eff))
            continue
        if ap["form"] == "manual_flag":
            if eff and eff.startswith("const ") and ar == "CBool":
                crows.append(("--" + c["long"], ar, fid[f["name"]], "SetBool %s" % eff.split()[1], c["name"], []))
            else:
                cskipped.append((c["name"], "manual flag-arm with effect %r" % eff))
            continue
        if ap["form"] == "closure":
            arg = ap["arg"].strip()
            if arg in ("true", "false") and eff == "param":
                effect = "SetBool %s" % arg
            elif arg == "" and eff and eff.startswith("const "):
                effect = "SetBool %s" % eff.split()[1]
            else:
                cskipped.append((c["name"], "closure %r with effect %r" % (arg, eff)))
                continue
        else:
            if eff == "param" and ar == "CBool":
                effect = "SetBool true"
            elif eff == "some" and ar == "COpt":
                effect = "SetSome"
            elif eff == "push" and ar == "CVec":
                effect = "Push"
            elif eff and eff.startswith("const ") and ar == "CBool" and not m["params"]:
                effect = "SetBool %s" % eff.split()[1]
            else:
                cskipped.append((c["name"], "method %s effect %r arity %s" % (ap["method"], eff, ar)))
                continue
        also = []
        if effect.startswith("SetBool"):
            a = also_effects(m, f["name"], effect.endswith("true"))
            if a is None:
                cskipped.append((c["name"], "method %s has secondary effects the translator cannot read" % m["name"]))
                continue
            also = [(fid[g], v) for g, v in a]
        elif len(m["touches"]) > 1:
            cskipped.append((c["name"], "method %s touches several fields %s" % (m["name"], m["touches"])))
            continue
        crows.append(("--" + c["long"], ar, fid[f["name"]], effect, c["name"], also))
    return prows, crows, skipped, cskipped


def coq_bytes(s):
    return "[" + "; ".join(str(b) for b in s.encode()) + "]"


def main(repo, out=None):
    fields = parse_options(repo)
    cli, applies = parse_cli(repo)
    prows, crows, skipped, cskipped = build_tables(fields, cli, applies)
    if out:
        s = "(* generated from /repo/bindgen/options/{mod,cli}.rs by translator/tr_c13.py -- do not edit *)\n"
        s += "From Coq Require Import NArith List.\nFrom BG Require Import C13.Model.\nImport ListNotations.\nOpen Scope N_scope.\n\n"
        s += "Definition prows : list prow := [\n%s\n].\n\n" % ";\n".join(
            "  {| p_field := %d; p_kind := %s; p_flag := %s |} (* %s %s *)" % (fi, k, coq_bytes(fl), nm, fl) for fi, k, fl, nm in prows)
        s += "Definition crows : list crow := [\n%s\n].\n" % ";\n".join(
            "  {| c_long := %s; c_arity := %s; c_field := %d; c_effect := %s; c_also := [%s] |} (* %s %s *)" % (
                coq_bytes(l), ar, fi, ef, "; ".join("(%d, %s)" % (g, "true" if v else "false") for g, v in also), nm, l) for l, ar, fi, ef, nm, also in crows)
        if not os.path.exists(out) or open(out).read() != s:
            open(out, "w").write(s)
    return {"fields": fields, "cli": cli, "applies": applies, "prows": prows, "crows": crows, "skipped": skipped, "cskipped": cskipped}


if __name__ == "__main__":
    r = main(sys.argv[1], sys.argv[2] if len(sys.argv) > 2 else None)
    fields, cli, applies = r["fields"], r["cli"], r["applies"]
    print(len(r["prows"]), "print rows", len(r["crows"]), "clap rows")
    print("skipped fields", r["skipped"])
    print("skipped cli", r["cskipped"])
    print(len(fields), "fields;", len(cli), "cli args;", len(applies), "apply arms")
    from collections import Counter
    print(Counter(f["as_args"]["kind"] for f in fields))
    for f in fields:
        if f["as_args"]["kind"] == "custom":
            print("CUSTOM", f["name"], f["type"], f["as_args"]["flags"])
    print([a["name"] for a in cli if a["name"] not in applies])
    print({k: v for k, v in applies.items() if v["form"] == "other"})
    print(Counter((a["type"].split("<")[0]) for a in cli))


# ---------------------------------------------------------------- harness code generation
ENUM_PARSE = {"EnumVariation", "MacroTypeVariation", "AliasVariation", "NonCopyUnionStyle", "Formatter", "FieldVisibilityKind",
              "RustTarget", "RustEdition", "Abi"}


def gen_builder_rs(fields):
    """Rust source with `apply(b, method, arg) -> Result<Builder, String>`: one arm per Builder method whose
    parameter shape is understood; returns (source, [(method, shape)], [(method, reason)])"""
    arms, done, skipped = [], [], []
    seen = set()
    for f in fields:
        for m in f["methods"]:
            n = m["name"]
            if n in seen:
                continue
            seen.add(n)
            ps = [(p[0].replace("mut ", "").strip(), p[1].replace(" ", "")) for p in m["params"]]
            gen = m["generics"].replace(" ", "")
            gnames = set(re.findall(r"(?:^<|,)([A-Z]\w*)(?::|,|$)", gen)) | set(re.findall(r"\b([A-Z])\b", gen))

            def conv(ty, expr):
                if ty == "bool":
                    return '%s == "1"' % expr
                if ty in gnames:
                    return "%s.to_string()" % expr
                if ty in ("String", "&str"):
                    return "%s.to_string()" % expr if ty == "String" else expr
                if ty in ENUM_PARSE:
                    if ty == "EnumVariation":
                        return "parse_enum_variation(%s)?" % expr
                    return '%s.parse::<bindgen::%s>().map_err(|e| format!("{e:?}"))?' % (expr, ty)
                if ty == "Option<PathBuf>":
                    return "Some(std::path::PathBuf::from(%s))" % expr
                if ty == "CodegenConfig":
                    return 'bindgen::CodegenConfig::from_bits_truncate(%s.parse::<u32>().map_err(|e| e.to_string())?)' % expr
                if ty == "usize":
                    return "%s.parse::<usize>().map_err(|e| e.to_string())?" % expr
                return None
            if n in ("parse_callbacks", "clang_args", "header_contents") or "Iterator" in gen:
                skipped.append((n, "not driven generically"))
                continue
            if len(ps) == 0:
                arms.append('        "%s" => b.%s(),' % (n, n))
                done.append((n, "unit"))
            elif len(ps) == 1:
                c = conv(ps[0][1], "arg")
                if c is None:
                    skipped.append((n, "param type %s" % ps[0][1]))
                    continue
                arms.append('        "%s" => b.%s(%s),' % (n, n, c))
                done.append((n, ps[0][1] if ps[0][1] not in gnames else "str"))
            else:
                cs = [conv(p[1], "parts[%d]" % i) for i, p in enumerate(ps)]
                if any(c is None for c in cs):
                    skipped.append((n, "param types %s" % [p[1] for p in ps]))
                    continue
                arms.append('        "%s" => { let parts: Vec<&str> = arg.split(\'\\u{1f}\').collect(); if parts.len() != %d { return Err("arity".into()); } b.%s(%s) }' % (n, len(ps), n, ", ".join(cs)))
                done.append((n, "+".join(p[1] if p[1] not in gnames else "str" for p in ps)))
    src = """// generated by translator/tr_c13.py from /repo/bindgen/options/mod.rs -- do not edit
use bindgen::Builder;

fn parse_enum_variation(s: &str) -> Result<bindgen::EnumVariation, String> {
    // every constructible value, including the ones FromStr cannot produce
    Ok(match s {
        "bitfield_global" => bindgen::EnumVariation::NewType { is_bitfield: true, is_global: true },
        other => other.parse::<bindgen::EnumVariation>().map_err(|e| e.to_string())?,
    })
}

#[allow(deprecated, clippy::all)]
pub fn apply(b: Builder, method: &str, arg: &str) -> Result<Builder, String> {
    Ok(match method {
%s
        other => return Err(format!("unknown method {other}")),
    })
}

pub const METHODS: &[(&str, &str)] = &[
%s
];
""" % ("\n".join(arms), "\n".join('    ("%s", "%s"),' % d for d in done))
    return src, done, skipped
