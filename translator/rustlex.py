# Minimal Rust tokenizer (enough for the declarative tables and leaf functions the
# translator reads).  Fails closed: an unknown character raises.
import re

TOK = re.compile(r"""
  (?P<ws>\s+)
 |(?P<lcomment>//[^\n]*)
 |(?P<bcomment>/\*.*?\*/)
 |(?P<rawstr>r(?P<h>\#*)".*?"(?P=h))
 |(?P<str>b?"(?:[^"\\]|\\.)*")
 |(?P<char>b?'(?:[^'\\]|\\.)')
 |(?P<lifetime>'[A-Za-z_][A-Za-z0-9_]*)
 |(?P<num>0[xX][0-9a-fA-F_]+[iu]?(?:8|16|32|64|128|size)?|0b[01_]+|[0-9][0-9_]*(?:\.[0-9][0-9_]*)?(?:[iuf](?:8|16|32|64|128|size))?)
 |(?P<ident>[A-Za-z_][A-Za-z0-9_]*)
 |(?P<punct>=>|->|::|\.\.=|\.\.\.|\.\.|<<=|>>=|&&|\|\||==|!=|<=|>=|\+=|-=|\*=|/=|%=|\^=|&=|\|=|<<|>>|[-+*/%^!&|=<>@.,;:\#$?~()\[\]{}])
""", re.X | re.S)


class LexError(Exception):
    pass


def lex(src):
    out, i = [], 0
    while i < len(src):
        m = TOK.match(src, i)
        if not m:
            raise LexError("cannot tokenize at %d: %r" % (i, src[i:i + 30]))
        k = m.lastgroup
        if k == "h":
            k = "rawstr"
        if k not in ("ws", "lcomment", "bcomment"):
            out.append((k, m.group(0)))
        i = m.end()
    return out


def balanced(toks, i):
    """toks[i] is an opening bracket; return index just past its matching close."""
    op = toks[i][1]
    cl = {"(": ")", "[": "]", "{": "}"}[op]
    depth = 0
    j = i
    while j < len(toks):
        t = toks[j][1]
        if toks[j][0] == "punct":
            if t in "([{":
                depth += 1
            elif t in ")]}":
                depth -= 1
                if depth == 0:
                    if t != cl:
                        raise LexError("mismatched bracket")
                    return j + 1
        j += 1
    raise LexError("unbalanced")


def find_seq(toks, seq, start=0):
    """index of first occurrence of the token-text sequence seq"""
    n = len(seq)
    for i in range(start, len(toks) - n + 1):
        if all(toks[i + k][1] == seq[k] for k in range(n)):
            return i
    return -1
