# inventory of environment-variable reads in /repo/bindgen -> list of sites
# (file, line, function, variable literal or None, goes_through_env_var)
import os, re, sys
from rustlex import lex, balanced, find_seq, LexError


class Shape(Exception):
    pass


def fn_spans(toks):
    """(name, start, end) for every fn item with a body"""
    spans = []
    i = 0
    while i < len(toks) - 2:
        if toks[i][1] == "fn" and toks[i + 1][0] == "ident":
            name = toks[i + 1][1]
            j = i + 2
            # find the body '{' at bracket depth 0 (skip generics/params/where)
            depth = 0
            while j < len(toks):
                t = toks[j][1]
                if toks[j][0] == "punct":
                    if t in "([":
                        depth += 1
                    elif t in ")]":
                        depth -= 1
                    elif t == "{" and depth == 0:
                        break
                    elif t == ";" and depth == 0:
                        j = None
                        break
                j += 1
            if j is None or j >= len(toks):
                i += 2
                continue
            e = balanced(toks, j)
            spans.append((name, j, e))
            i += 2
        else:
            i += 1
    return spans


def sites(repo):
    out = []
    for d, _, fs in sorted(os.walk(os.path.join(repo, "bindgen"))):
        for f in sorted(fs):
            if not f.endswith(".rs") or f == "build.rs" or f.startswith("verif_"):
                continue
            p = os.path.join(d, f)
            src = open(p).read()
            if "env" not in src:
                continue
            # token positions -> line numbers
            toks = lex(src)
            spans = fn_spans(toks)
            for i in range(len(toks) - 3):
                if toks[i][1] == "env" and toks[i + 1][1] == "::" and toks[i + 2][1] in ("var", "var_os", "vars", "vars_os"):
                    fn = None
                    for name, s, e in spans:
                        if s <= i < e:
                            fn = name  # innermost wins (later spans are nested or later)
                    lit = None
                    if toks[i + 3][1] == "(" and toks[i + 4][0] == "str":
                        lit = toks[i + 4][1].strip('"')
                    if lit == "BINDGEN_VERIF_LOG":
                        continue  # the verification hooks' own switch (cfg(bindgen_verif) code)
                    out.append({"file": os.path.relpath(p, repo), "fn": fn, "var": lit, "via_env_var": fn == "env_var"})
    # the wrapper itself must notify the callbacks before reading
    lib = lex(open(os.path.join(repo, "bindgen/lib.rs")).read())
    ok = False
    for name, s, e in fn_spans(lib):
        if name == "env_var":
            body = [t for _, t in lib[s:e]]
            if "read_env_var" in body and "env" in body:
                ok = body.index("read_env_var") < len(body) - 1
    if not ok:
        raise Shape("fn env_var does not call read_env_var on the callbacks")
    return out


def main(repo, out=None):
    return sites(repo)


if __name__ == "__main__":
    for s in main(sys.argv[1]):
        print(s)
