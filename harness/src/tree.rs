// canonical S-expression of a syn::File, used by the C18 correspondence:
//   P<kind>.<id>  F<key>.<unsafe>(<id>,<id>,...)  M<id>{...}  M<id>;
// key = attrs/abi rendered as text (percent-encoded), id = digits after the last '_' of the name
use quote::ToTokens;

fn id_of(name: &str) -> String {
    name.rsplit('_').next().unwrap_or("?").to_string()
}

fn path_first(p: &syn::Path) -> String {
    p.segments.first().map(|s| s.ident.to_string()).unwrap_or_default()
}

fn use_first(t: &syn::UseTree) -> String {
    match t {
        syn::UseTree::Path(p) => p.ident.to_string(),
        syn::UseTree::Name(n) => n.ident.to_string(),
        syn::UseTree::Rename(r) => r.ident.to_string(),
        _ => "?".into(),
    }
}

pub fn items(its0: &[syn::Item], out: &mut String) {
    for it in its0 {
        match it {
            syn::Item::Const(x) => out.push_str(&format!("P0.{} ", id_of(&x.ident.to_string()))),
            syn::Item::Enum(x) => out.push_str(&format!("P1.{} ", id_of(&x.ident.to_string()))),
            syn::Item::ExternCrate(x) => out.push_str(&format!("P2.{} ", id_of(&x.ident.to_string()))),
            syn::Item::Fn(x) => out.push_str(&format!("P3.{} ", id_of(&x.sig.ident.to_string()))),
            syn::Item::ForeignMod(x) => {
                let mut key = String::new();
                for a in &x.attrs {
                    key.push_str(&a.to_token_stream().to_string());
                }
                key.push('|');
                key.push_str(&x.abi.to_token_stream().to_string());
                out.push_str(&format!("F{}.{}(", crate::enc::enc(&key).replace('.', "%2E").replace('(', "%28"), x.unsafety.is_some() as u8));
                for fi in &x.items {
                    let n = match fi {
                        syn::ForeignItem::Fn(f) => f.sig.ident.to_string(),
                        syn::ForeignItem::Static(s) => s.ident.to_string(),
                        syn::ForeignItem::Type(t) => t.ident.to_string(),
                        _ => "?".into(),
                    };
                    out.push_str(&id_of(&n));
                    out.push(',');
                }
                out.push_str(") ");
            }
            syn::Item::Impl(x) => {
                let n = match &*x.self_ty {
                    syn::Type::Path(p) => path_first(&p.path),
                    _ => "?".into(),
                };
                out.push_str(&format!("P5.{} ", id_of(&n)))
            }
            syn::Item::Macro(x) => out.push_str(&format!("P6.{} ", id_of(&path_first(&x.mac.path)))),
            syn::Item::Mod(x) => {
                out.push_str(&format!("M{}", id_of(&x.ident.to_string())));
                match &x.content {
                    Some((_, its)) => {
                        out.push_str("{ ");
                        items(its, out);
                        out.push_str("} ");
                    }
                    None => out.push_str("; "),
                }
            }
            syn::Item::Static(x) => out.push_str(&format!("P8.{} ", id_of(&x.ident.to_string()))),
            syn::Item::Struct(x) => out.push_str(&format!("P9.{} ", id_of(&x.ident.to_string()))),
            syn::Item::Trait(x) => out.push_str(&format!("P10.{} ", id_of(&x.ident.to_string()))),
            syn::Item::TraitAlias(x) => out.push_str(&format!("P11.{} ", id_of(&x.ident.to_string()))),
            syn::Item::Type(x) => out.push_str(&format!("P12.{} ", id_of(&x.ident.to_string()))),
            syn::Item::Union(x) => out.push_str(&format!("P13.{} ", id_of(&x.ident.to_string()))),
            syn::Item::Use(x) => out.push_str(&format!("P14.{} ", id_of(&use_first(&x.tree)))),
            syn::Item::Verbatim(_) => out.push_str("P15.? "),
            _ => out.push_str("P16.? "),
        }
    }
}

pub fn of_source(src: &str) -> Result<String, String> {
    let f: syn::File = syn::parse_str(src).map_err(|e| e.to_string())?;
    let mut s = String::new();
    items(&f.items, &mut s);
    Ok(s.trim_end().to_string())
}

// inventory: the multiset of items per module path; foreign items individually,
// each with the attrs / abi / unsafety of its block.  Returned as "<n> <hash>".
fn inv_items(its: &[syn::Item], path: &str, out: &mut Vec<String>) {
    for it in its {
        match it {
            syn::Item::ForeignMod(x) => {
                let mut key = String::new();
                for a in &x.attrs {
                    key.push_str(&a.to_token_stream().to_string());
                }
                key.push('|');
                key.push_str(&x.abi.to_token_stream().to_string());
                key.push('|');
                key.push_str(if x.unsafety.is_some() { "unsafe" } else { "safe" });
                for fi in &x.items {
                    out.push(format!("{}|F|{}|{}", path, key, fi.to_token_stream()));
                }
            }
            syn::Item::Mod(x) => {
                let mut hd = String::new();
                for a in &x.attrs {
                    hd.push_str(&a.to_token_stream().to_string());
                }
                out.push(format!("{}|M|{}|{}|{}", path, hd, x.ident, x.content.is_some()));
                if let Some((_, c)) = &x.content {
                    inv_items(c, &format!("{}::{}", path, x.ident), out);
                }
            }
            other => out.push(format!("{}|I|{}", path, other.to_token_stream())),
        }
    }
}

pub fn inventory(src: &str) -> Result<String, String> {
    use std::hash::{Hash, Hasher};
    let f: syn::File = syn::parse_str(src).map_err(|e| e.to_string())?;
    let mut v = Vec::new();
    inv_items(&f.items, "", &mut v);
    v.sort();
    #[allow(deprecated)]
    let mut h = std::hash::SipHasher::new();
    v.hash(&mut h);
    Ok(format!("{} {:016x}", v.len(), h.finish()))
}
