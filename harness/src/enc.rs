// percent-encoding of arbitrary strings into TAB/newline-free ASCII
pub fn enc(s: &str) -> String {
    let mut o = String::new();
    for &b in s.as_bytes() {
        if b.is_ascii_alphanumeric() || b"_-./:,=+@(){}[]<>;&*!#'\"|^~?$`".contains(&b) {
            o.push(b as char);
        } else {
            o.push_str(&format!("%{:02X}", b));
        }
    }
    o
}

pub fn dec(s: &str) -> String {
    let b = s.as_bytes();
    let mut o = Vec::new();
    let mut i = 0;
    while i < b.len() {
        if b[i] == b'%' && i + 2 < b.len() {
            let h = std::str::from_utf8(&b[i + 1..i + 3]).unwrap();
            o.push(u8::from_str_radix(h, 16).unwrap());
            i += 3;
        } else {
            o.push(b[i]);
            i += 1;
        }
    }
    String::from_utf8_lossy(&o).into_owned()
}
