use crate::enc::{dec, enc};
use bindgen::verif_hooks as vh;
use std::io::Write;

/// Subcommands that do not read cases from stdin.
pub fn oneshot(sub: &str, _rest: &[String], out: &mut dyn Write) -> bool {
    match sub {
        "defaults" => {
            let d = vh::rust_defaults();
            writeln!(out, "{}\t{}", d[0], d[1]).unwrap();
            true
        }
        // cargocb <depfile|-> <formatter none|rustfmt|prettyplease> <header> [clang args...]
        // runs a real generation with CargoCallbacks plus a recording callback; stdout carries the
        // cargo lines (printed by bindgen itself) and "CB <kind> <percent-encoded arg>" lines.
        "cargocb" => {
            #[derive(Debug)]
            struct Rec;
            impl bindgen::callbacks::ParseCallbacks for Rec {
                fn header_file(&self, f: &str) {
                    println!("CB header_file {}", enc(f));
                }
                fn include_file(&self, f: &str) {
                    println!("CB include_file {}", enc(f));
                }
                fn read_env_var(&self, k: &str) {
                    println!("CB read_env_var {}", enc(k));
                }
            }
            let mut b = bindgen::Builder::default()
                .header(dec(&_rest[2]))
                .parse_callbacks(Box::new(bindgen::CargoCallbacks::new()))
                .parse_callbacks(Box::new(Rec))
                .clang_args(_rest[3..].iter().map(|s| dec(s)));
            b = b.formatter(match _rest[1].as_str() {
                "rustfmt" => bindgen::Formatter::Rustfmt,
                "prettyplease" => bindgen::Formatter::Prettyplease,
                _ => bindgen::Formatter::None,
            });
            if _rest[0] != "-" {
                b = b.depfile("out.rs", dec(&_rest[0]));
            }
            match b.generate() {
                Ok(bindings) => {
                    let s = bindings.to_string();
                    println!("OK {}", s.len());
                }
                Err(e) => println!("ERR {}", enc(&e.to_string())),
            }
            true
        }
        _ => false,
    }
}

fn opt<'a>(s: &'a str) -> Option<&'a str> {
    if s == "-" {
        None
    } else {
        Some(s)
    }
}

pub fn dispatch(sub: &str, f: &[&str]) -> String {
    match sub {
        // feat <target> <edition>
        "feat" => match vh::rust_features(&dec(f[0]), &dec(f[1])) {
            Ok(v) => v
                .iter()
                .map(|(n, b)| format!("{}={}", n, *b as u8))
                .collect::<Vec<_>>()
                .join(" "),
            Err(e) => format!("ERR {}", enc(&e)),
        },
        // target <target>
        "target" => match vh::rust_target_info(&dec(f[0])) {
            Ok(v) => v.join("\t"),
            Err(e) => format!("ERR {}", enc(&e)),
        },
        // dep <module> <path>*
        "dep" => {
            let m = dec(f[0]);
            let ps: Vec<String> = f[1..].iter().map(|s| dec(s)).collect();
            let pr: Vec<&str> = ps.iter().map(|s| s.as_str()).collect();
            enc(&vh::depfile_to_string(&m, &pr))
        }
        // post <merge 0/1> <sort 0/1> <src>
        "post" => match vh::postprocess(&dec(f[2]), f[0] == "1", f[1] == "1") {
            Ok(s) => format!("OK {}", enc(&s)),
            Err(e) => format!("ERR {}", enc(&e)),
        },
        // posttree <merge 0/1> <sort 0/1> <src> : postprocess then canonical tree of the result
        "posttree" => match vh::postprocess(&dec(f[2]), f[0] == "1", f[1] == "1") {
            Ok(s) => match crate::tree::of_source(&s) {
                Ok(t) => format!("OK {}", t),
                Err(e) => format!("ERR reparse {}", enc(&e)),
            },
            Err(e) => format!("ERR {}", enc(&e)),
        },
        "inventory" => match crate::tree::inventory(&dec(f[0])) {
            Ok(t) => format!("OK {}", t),
            Err(e) => format!("ERR {}", enc(&e)),
        },
        // tree <src> : canonical tree of the source itself
        "tree" => match crate::tree::of_source(&dec(f[0])) {
            Ok(t) => format!("OK {}", t),
            Err(e) => format!("ERR {}", enc(&e)),
        },
        // names <abi|-|?> <canonical> <mangled>
        "names" => {
            let r = vh::names_identical(&dec(f[1]), &dec(f[2]), opt(f[0]));
            format!("{}", r as u8)
        }
        "align" => format!(
            "{}",
            vh::align_to(f[0].parse().unwrap(), f[1].parse().unwrap())
        ),
        "forsize" => {
            let (s, a) =
                vh::layout_for_size(f[0].parse().unwrap(), f[1].parse().unwrap());
            format!("{} {}", s, a)
        }
        _ => {
            eprintln!("unknown subcommand {sub}");
            std::process::exit(2)
        }
    }
}
