use crate::enc::{dec, enc};
use bindgen::verif_hooks as vh;
use std::io::Write;

/// Subcommands that do not read cases from stdin.
pub fn oneshot(sub: &str, _rest: &[String], out: &mut dyn Write) -> bool {
    match sub {
        "defaults" => {
            let d = vh::rust_defaults();
            writeln!(out, "{}\t{}", d[0], d[1]).unwrap();
            true
        }
        // methods : list the builder methods the generated dispatcher knows
        "methods" => {
            for (m, k) in crate::gen_builder::METHODS {
                writeln!(out, "{}\t{}", m, k).unwrap();
            }
            true
        }
        // rt1 <header> <method>=<arg> ... : builder API -> flags -> builder_from_flags -> flags, bindings of both
        // (one process per case: clap exits the process on a parse error; exit status 2 then)
        "rt1" => {
            let header = dec(&_rest[0]);
            let mut b1 = bindgen::Builder::default().header(header.clone());
            for kv in &_rest[1..] {
                let kv = dec(kv);
                let (m, a) = kv.split_once('=').unwrap_or((kv.as_str(), ""));
                b1 = match crate::gen_builder::apply(b1, m, a) {
                    Ok(b) => b,
                    Err(e) => {
                        writeln!(out, "SKIP {}", enc(&e)).unwrap();
                        return true;
                    }
                };
            }
            let f1 = b1.command_line_flags();
            writeln!(out, "FLAGS1 {}", f1.iter().map(|s| enc(s)).collect::<Vec<_>>().join("\t")).unwrap();
            out.flush().unwrap();
            let args = std::iter::once("bindgen".to_string()).chain(f1.iter().cloned());
            let (b2, _, _) = match bindgen::builder_from_flags(args) {
                Ok(x) => x,
                Err(e) => {
                    writeln!(out, "FROMFLAGS-ERR {}", enc(&e.to_string())).unwrap();
                    return true;
                }
            };
            let f2 = b2.command_line_flags();
            writeln!(out, "FLAGS2 {}", f2.iter().map(|s| enc(s)).collect::<Vec<_>>().join("\t")).unwrap();
            out.flush().unwrap();
            let g = |b: bindgen::Builder| match std::panic::catch_unwind(std::panic::AssertUnwindSafe(|| b.generate())) {
                Ok(Ok(x)) => format!("OK {}", enc(&x.to_string())),
                Ok(Err(e)) => format!("ERR {}", enc(&e.to_string())),
                Err(_) => "PANIC".to_string(),
            };
            std::panic::set_hook(Box::new(|_| {}));
            let o1 = g(b1);
            let o2 = g(b2);
            writeln!(out, "SAME_FLAGS {}", (f1 == f2) as u8).unwrap();
            writeln!(out, "SAME_BINDINGS {}", (o1 == o2) as u8).unwrap();
            writeln!(out, "OUT1 {}", &o1[..o1.len().min(60)]).unwrap();
            if o1 != o2 {
                writeln!(out, "OUT1FULL {}", o1).unwrap();
                writeln!(out, "OUT2FULL {}", o2).unwrap();
            }
            true
        }
        // fmt <none|rustfmt|prettyplease> <rustfmt_path|-> <disable_header_comment 0/1> <header> [raw lines...]
        // writes the bindings through Bindings::write and reports the text
        "fmt" => {
            let mut b = bindgen::Builder::default().header(dec(&_rest[3]));
            b = b.formatter(match _rest[0].as_str() {
                "rustfmt" => bindgen::Formatter::Rustfmt,
                "prettyplease" => bindgen::Formatter::Prettyplease,
                _ => bindgen::Formatter::None,
            });
            if _rest[1] != "-" {
                b = b.with_rustfmt(dec(&_rest[1]));
            }
            if _rest[2] == "1" {
                b = b.disable_header_comment();
            }
            for l in &_rest[4..] {
                b = b.raw_line(dec(l));
            }
            match b.generate() {
                Ok(bindings) => {
                    let mut v: Vec<u8> = Vec::new();
                    let r = std::panic::catch_unwind(std::panic::AssertUnwindSafe(|| bindings.write(&mut v)));
                    match r {
                        Ok(Ok(())) => writeln!(out, "OK {}", enc(&String::from_utf8_lossy(&v))).unwrap(),
                        Ok(Err(e)) => writeln!(out, "WRITE-ERR {}", enc(&e.to_string())).unwrap(),
                        Err(_) => writeln!(out, "PANIC").unwrap(),
                    }
                }
                Err(e) => writeln!(out, "GEN-ERR {}", enc(&e.to_string())).unwrap(),
            }
            true
        }
        // wrap <path|multi|contents> <wrap path> <suffix|-> <header> [<second header>] : static-function wrapping through the builder API
        // (several headers / in-memory contents cannot be expressed on the command line)
        "wrap" => {
            let mut b = bindgen::Builder::default().wrap_static_fns(true).wrap_static_fns_path(dec(&_rest[1])).layout_tests(false);
            if _rest[2] != "-" {
                b = b.wrap_static_fns_suffix(dec(&_rest[2]));
            }
            let h1 = dec(&_rest[3]);
            b = match _rest[0].as_str() {
                "contents" => b.header_contents("in_memory.h", &std::fs::read_to_string(&h1).unwrap()),
                _ => b.header(h1),
            };
            if _rest.len() > 4 {
                let h2 = dec(&_rest[4]);
                b = if _rest[0] == "contents" { b.header_contents("in_memory_2.h", &std::fs::read_to_string(&h2).unwrap()) } else { b.header(h2) };
            }
            std::panic::set_hook(Box::new(|_| {}));
            match std::panic::catch_unwind(std::panic::AssertUnwindSafe(|| b.generate())) {
                Ok(Ok(x)) => writeln!(out, "OK {}", enc(&x.to_string())).unwrap(),
                Ok(Err(e)) => writeln!(out, "ERR {}", enc(&e.to_string())).unwrap(),
                Err(_) => writeln!(out, "PANIC").unwrap(),
            }
            true
        }
        // tokens : stdin lines = percent-encoded Rust source; prints its token stream rendering
        "tokens" => {
            use std::io::BufRead;
            for line in std::io::stdin().lock().lines() {
                let src = dec(&line.unwrap());
                match src.parse::<proc_macro2::TokenStream>() {
                    Ok(ts) => {
                        // canonical token sequence: punctuation spacing ignored, a trailing comma directly
                        // before a closing delimiter dropped (formatters add/remove those)
                        fn flat(ts: proc_macro2::TokenStream, o: &mut Vec<String>) {
                            for tt in ts {
                                match tt {
                                    proc_macro2::TokenTree::Group(g) => {
                                        let (a, b) = match g.delimiter() {
                                            proc_macro2::Delimiter::Parenthesis => ("(", ")"),
                                            proc_macro2::Delimiter::Brace => ("{", "}"),
                                            proc_macro2::Delimiter::Bracket => ("[", "]"),
                                            proc_macro2::Delimiter::None => ("", ""),
                                        };
                                        o.push(a.to_string());
                                        flat(g.stream(), o);
                                        if o.last().map(|s| s == ",").unwrap_or(false) {
                                            o.pop();
                                        }
                                        o.push(b.to_string());
                                    }
                                    proc_macro2::TokenTree::Punct(p) => o.push(p.as_char().to_string()),
                                    other => o.push(other.to_string()),
                                }
                            }
                        }
                        let mut v0 = Vec::new();
                        flat(ts, &mut v0);
                        // also a trailing comma of a generic argument / parameter list: `, >`
                        let mut v: Vec<String> = Vec::new();
                        for (i, t) in v0.iter().enumerate() {
                            if t == "," && v0.get(i + 1).map(|n| n == ">").unwrap_or(false) {
                                continue;
                            }
                            v.push(t.clone());
                        }
                        writeln!(out, "OK {}", enc(&v.join(" "))).unwrap()
                    }
                    Err(e) => writeln!(out, "ERR {}", enc(&e.to_string())).unwrap(),
                }
            }
            true
        }
        // cli0 <header> : flags of the builder the CLI makes from just a header
        "cli0" => {
            let args = vec!["bindgen".to_string(), dec(&_rest[0])];
            match bindgen::builder_from_flags(args.into_iter()) {
                Ok((b, _, _)) => writeln!(out, "{}", b.command_line_flags().iter().map(|s| enc(s)).collect::<Vec<_>>().join("\t")).unwrap(),
                Err(e) => writeln!(out, "ERR {}", enc(&e.to_string())).unwrap(),
            }
            true
        }
        // clirt <header> <flags...> : CLI flags -> builder -> flags -> builder; bindings of both
        "clirt" => {
            let mut a0 = vec!["bindgen".to_string(), dec(&_rest[0])];
            a0.extend(_rest[1..].iter().map(|s| dec(s)));
            let (b1, _, _) = match bindgen::builder_from_flags(a0.into_iter()) {
                Ok(x) => x,
                Err(e) => {
                    writeln!(out, "REJECTED0 {}", enc(&e.to_string())).unwrap();
                    return true;
                }
            };
            writeln!(out, "PARSED0").unwrap();
            let f1 = b1.command_line_flags();
            writeln!(out, "FLAGS1 {}", f1.iter().map(|s| enc(s)).collect::<Vec<_>>().join("\t")).unwrap();
            out.flush().unwrap();
            let args = std::iter::once("bindgen".to_string()).chain(f1.iter().cloned());
            let (b2, _, _) = match bindgen::builder_from_flags(args) {
                Ok(x) => x,
                Err(e) => {
                    writeln!(out, "FROMFLAGS-ERR {}", enc(&e.to_string())).unwrap();
                    return true;
                }
            };
            let f2 = b2.command_line_flags();
            writeln!(out, "FLAGS2 {}", f2.iter().map(|s| enc(s)).collect::<Vec<_>>().join("\t")).unwrap();
            std::panic::set_hook(Box::new(|_| {}));
            let g = |b: bindgen::Builder| match std::panic::catch_unwind(std::panic::AssertUnwindSafe(|| b.generate())) {
                Ok(Ok(x)) => format!("OK {}", enc(&x.to_string())),
                Ok(Err(e)) => format!("ERR {}", enc(&e.to_string())),
                Err(_) => "PANIC".to_string(),
            };
            let o1 = g(b1);
            let o2 = g(b2);
            writeln!(out, "SAME_FLAGS {}", (f1 == f2) as u8).unwrap();
            writeln!(out, "SAME_BINDINGS {}", (o1 == o2) as u8).unwrap();
            if o1 != o2 {
                writeln!(out, "OUT1FULL {}", &o1[..o1.len().min(3000)]).unwrap();
                writeln!(out, "OUT2FULL {}", &o2[..o2.len().min(3000)]).unwrap();
            }
            true
        }
        // hist <threads> <jobfile> : a history of generations in ONE process (C11).  jobfile lines:
        //   <id> TAB <header> TAB <percent-encoded flag> TAB ...      (flags as on the command line)
        // threads = 1: the jobs run in file order on the main thread; threads > 1: that many workers pull jobs from a
        // shared counter.  One output line per job: <id> <status> <hash of the bindings text> <hash of the callback
        // notification sequence> <hash of the flags the builder prints back>.
        "hist" => {
            use std::hash::{Hash, Hasher};
            use std::sync::atomic::{AtomicUsize, Ordering};
            use std::sync::{Arc, Mutex};
            let threads: usize = _rest[0].parse().unwrap();
            let text = std::fs::read_to_string(dec(&_rest[1])).unwrap();
            let jobs: Vec<(String, String, Vec<String>)> = text
                .lines()
                .filter(|l| !l.is_empty())
                .map(|l| {
                    let f: Vec<&str> = l.split('\t').collect();
                    (f[0].to_string(), dec(f[1]), f[2..].iter().map(|x| dec(x)).collect())
                })
                .collect();
            #[derive(Debug)]
            struct Rec(Arc<Mutex<Vec<String>>>);
            impl bindgen::callbacks::ParseCallbacks for Rec {
                fn header_file(&self, f: &str) {
                    self.0.lock().unwrap().push(format!("header_file {f}"));
                }
                fn include_file(&self, f: &str) {
                    self.0.lock().unwrap().push(format!("include_file {f}"));
                }
                fn read_env_var(&self, k: &str) {
                    self.0.lock().unwrap().push(format!("read_env_var {k}"));
                }
                fn item_name(&self, i: bindgen::callbacks::ItemInfo<'_>) -> Option<String> {
                    self.0.lock().unwrap().push(format!("item_name {}", i.name));
                    None
                }
                fn int_macro(&self, n: &str, v: i64) -> Option<bindgen::callbacks::IntKind> {
                    self.0.lock().unwrap().push(format!("int_macro {n} {v}"));
                    None
                }
            }
            fn h(s: &str) -> u64 {
                let mut x = std::collections::hash_map::DefaultHasher::new();
                s.hash(&mut x);
                x.finish()
            }
            let run = move |job: &(String, String, Vec<String>)| -> String {
                let (id, header, flags) = job;
                let mut a = vec!["bindgen".to_string(), header.clone()];
                a.extend(flags.iter().cloned());
                let (b, _, _) = match bindgen::builder_from_flags(a.into_iter()) {
                    Ok(x) => x,
                    Err(e) => return format!("{id} FLAGS-ERR {:016x} 0 0 0 0", h(&e.to_string())),
                };
                let seq = Arc::new(Mutex::new(Vec::new()));
                let b = b.parse_callbacks(Box::new(Rec(seq.clone())));
                let fl = b.command_line_flags().join("\u{1f}");
                let r = std::panic::catch_unwind(std::panic::AssertUnwindSafe(|| b.generate()));
                let cb = seq.lock().unwrap().join("\n");
                // side outputs: the depfile and the static-function wrapper source, when the flags ask for them
                let side = |flag: &str, ext: &str| -> u64 {
                    flags
                        .iter()
                        .position(|f| f == flag)
                        .and_then(|i| flags.get(i + 1))
                        .and_then(|p| std::fs::read_to_string(format!("{p}{ext}")).ok())
                        .map_or(0, |t| h(&t))
                };
                let (hd, hw) = (side("--depfile", ""), side("--wrap-static-fns-path", ".c"));
                match r {
                    Ok(Ok(x)) => format!("{id} OK {:016x} {:016x} {:016x} {hd:016x} {hw:016x}", h(&x.to_string()), h(&cb), h(&fl)),
                    Ok(Err(e)) => format!("{id} ERR {:016x} {:016x} {:016x} {hd:016x} {hw:016x}", h(&e.to_string()), h(&cb), h(&fl)),
                    Err(_) => format!("{id} PANIC 0 0 0 0 0"),
                }
            };
            std::panic::set_hook(Box::new(|_| {}));
            if threads <= 1 {
                for j in &jobs {
                    writeln!(out, "{}", run(j)).unwrap();
                }
            } else {
                let jobs = Arc::new(jobs);
                let next = Arc::new(AtomicUsize::new(0));
                let results = Arc::new(Mutex::new(Vec::new()));
                let mut hs = Vec::new();
                for _ in 0..threads {
                    let (jobs, next, results, run) = (jobs.clone(), next.clone(), results.clone(), run.clone());
                    hs.push(std::thread::spawn(move || loop {
                        let k = next.fetch_add(1, Ordering::SeqCst);
                        if k >= jobs.len() {
                            break;
                        }
                        let line = run(&jobs[k]);
                        results.lock().unwrap().push(line);
                    }));
                }
                for t in hs {
                    t.join().unwrap();
                }
                for l in results.lock().unwrap().iter() {
                    writeln!(out, "{l}").unwrap();
                }
            }
            true
        }
        // runs a real generation with CargoCallbacks plus a recording callback; stdout carries the
        // cargo lines (printed by bindgen itself) and "CB <kind> <percent-encoded arg>" lines.
        "cargocb" => {
            // cargocb <depfile|-> <formatter> <n> <header 1> .. <header n> [clang args...]
            #[derive(Debug)]
            struct Rec;
            impl bindgen::callbacks::ParseCallbacks for Rec {
                fn header_file(&self, f: &str) {
                    println!("CB header_file {}", enc(f));
                }
                fn include_file(&self, f: &str) {
                    println!("CB include_file {}", enc(f));
                }
                fn read_env_var(&self, k: &str) {
                    println!("CB read_env_var {}", enc(k));
                }
            }
            let n: usize = _rest[2].parse().unwrap();
            let mut b = bindgen::Builder::default();
            for h in &_rest[3..3 + n] {
                b = b.header(dec(h));
            }
            b = b
                .parse_callbacks(Box::new(bindgen::CargoCallbacks::new()))
                .parse_callbacks(Box::new(Rec))
                .clang_args(_rest[3 + n..].iter().map(|s| dec(s)));
            b = b.formatter(match _rest[1].as_str() {
                "rustfmt" => bindgen::Formatter::Rustfmt,
                "prettyplease" => bindgen::Formatter::Prettyplease,
                _ => bindgen::Formatter::None,
            });
            if _rest[0] != "-" {
                b = b.depfile("out.rs", dec(&_rest[0]));
            }
            match b.generate() {
                Ok(bindings) => {
                    let s = bindings.to_string();
                    println!("OK {}", s.len());
                }
                Err(e) => println!("ERR {}", enc(&e.to_string())),
            }
            true
        }
        _ => false,
    }
}

fn opt<'a>(s: &'a str) -> Option<&'a str> {
    if s == "-" {
        None
    } else {
        Some(s)
    }
}

pub fn dispatch(sub: &str, f: &[&str]) -> String {
    match sub {
        // feat <target> <edition>
        "feat" => match vh::rust_features(&dec(f[0]), &dec(f[1])) {
            Ok(v) => v
                .iter()
                .map(|(n, b)| format!("{}={}", n, *b as u8))
                .collect::<Vec<_>>()
                .join(" "),
            Err(e) => format!("ERR {}", enc(&e)),
        },
        // target <target>
        "target" => match vh::rust_target_info(&dec(f[0])) {
            Ok(v) => v.join("\t"),
            Err(e) => format!("ERR {}", enc(&e)),
        },
        // dep <module> <path>*
        "dep" => {
            let m = dec(f[0]);
            let ps: Vec<String> = f[1..].iter().map(|s| dec(s)).collect();
            let pr: Vec<&str> = ps.iter().map(|s| s.as_str()).collect();
            enc(&vh::depfile_to_string(&m, &pr))
        }
        // post <merge 0/1> <sort 0/1> <src>
        "post" => match vh::postprocess(&dec(f[2]), f[0] == "1", f[1] == "1") {
            Ok(s) => format!("OK {}", enc(&s)),
            Err(e) => format!("ERR {}", enc(&e)),
        },
        // posttree <merge 0/1> <sort 0/1> <src> : postprocess then canonical tree of the result
        "posttree" => match vh::postprocess(&dec(f[2]), f[0] == "1", f[1] == "1") {
            Ok(s) => match crate::tree::of_source(&s) {
                Ok(t) => format!("OK {}", t),
                Err(e) => format!("ERR reparse {}", enc(&e)),
            },
            Err(e) => format!("ERR {}", enc(&e)),
        },
        "inventory" => match crate::tree::inventory(&dec(f[0])) {
            Ok(t) => format!("OK {}", t),
            Err(e) => format!("ERR {}", enc(&e)),
        },
        // tree <src> : canonical tree of the source itself
        "tree" => match crate::tree::of_source(&dec(f[0])) {
            Ok(t) => format!("OK {}", t),
            Err(e) => format!("ERR {}", enc(&e)),
        },
        // names <abi|-|?> <canonical> <mangled> <underscore_prefix 0|1>
        "names" => {
            let e = |x: &str| if x == "%" { String::new() } else { dec(x) };
            let r = vh::names_identical(&e(f[1]), &e(f[2]), opt(f[0]), f[3] == "1");
            format!("{}", r as u8)
        }
        // triple <target triple>
        "triple" => format!(
            "{}",
            vh::triple_prefixes_symbols(&if f[0] == "%" { String::new() } else { dec(f[0]) }) as u8
        ),
        "align" => format!(
            "{}",
            vh::align_to(f[0].parse().unwrap(), f[1].parse().unwrap())
        ),
        "forsize" => {
            let (s, a) =
                vh::layout_for_size(f[0].parse().unwrap(), f[1].parse().unwrap());
            format!("{} {}", s, a)
        }
        _ => {
            eprintln!("unknown subcommand {sub}");
            std::process::exit(2)
        }
    }
}
