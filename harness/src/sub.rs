use crate::enc::{dec, enc};
use bindgen::verif_hooks as vh;
use std::io::Write;

/// Subcommands that do not read cases from stdin.
pub fn oneshot(sub: &str, _rest: &[String], out: &mut dyn Write) -> bool {
    match sub {
        "defaults" => {
            let d = vh::rust_defaults();
            writeln!(out, "{}\t{}", d[0], d[1]).unwrap();
            true
        }
        _ => false,
    }
}

fn opt<'a>(s: &'a str) -> Option<&'a str> {
    if s == "-" {
        None
    } else {
        Some(s)
    }
}

pub fn dispatch(sub: &str, f: &[&str]) -> String {
    match sub {
        // feat <target> <edition>
        "feat" => match vh::rust_features(&dec(f[0]), &dec(f[1])) {
            Ok(v) => v
                .iter()
                .map(|(n, b)| format!("{}={}", n, *b as u8))
                .collect::<Vec<_>>()
                .join(" "),
            Err(e) => format!("ERR {}", enc(&e)),
        },
        // target <target>
        "target" => match vh::rust_target_info(&dec(f[0])) {
            Ok(v) => v.join("\t"),
            Err(e) => format!("ERR {}", enc(&e)),
        },
        // dep <module> <path>*
        "dep" => {
            let m = dec(f[0]);
            let ps: Vec<String> = f[1..].iter().map(|s| dec(s)).collect();
            let pr: Vec<&str> = ps.iter().map(|s| s.as_str()).collect();
            enc(&vh::depfile_to_string(&m, &pr))
        }
        // post <merge 0/1> <sort 0/1> <src>
        "post" => match vh::postprocess(&dec(f[2]), f[0] == "1", f[1] == "1") {
            Ok(s) => format!("OK {}", enc(&s)),
            Err(e) => format!("ERR {}", enc(&e)),
        },
        // names <abi|-|?> <canonical> <mangled>
        "names" => {
            let r = vh::names_identical(&dec(f[1]), &dec(f[2]), opt(f[0]));
            format!("{}", r as u8)
        }
        "align" => format!(
            "{}",
            vh::align_to(f[0].parse().unwrap(), f[1].parse().unwrap())
        ),
        "forsize" => {
            let (s, a) =
                vh::layout_for_size(f[0].parse().unwrap(), f[1].parse().unwrap());
            format!("{} {}", s, a)
        }
        _ => {
            eprintln!("unknown subcommand {sub}");
            std::process::exit(2)
        }
    }
}
