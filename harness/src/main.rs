// bgverif harness: runs pieces of the bindgen implementation on inputs given
// on stdin (one case per line, fields separated by TAB, strings percent-encoded)
// and prints one result line per case.  Built with RUSTFLAGS="--cfg bindgen_verif".
use std::io::{self, BufRead, Write};

mod enc;
mod gen_builder;
mod sub;
mod tree;

fn main() {
    let args: Vec<String> = std::env::args().collect();
    if args.len() < 2 {
        eprintln!("usage: bgv <subcommand> [args]");
        std::process::exit(2);
    }
    let stdin = io::stdin();
    let stdout = io::stdout();
    let mut out = io::BufWriter::new(stdout.lock());
    let sub = args[1].as_str();
    let rest = &args[2..];
    if sub::oneshot(sub, rest, &mut out) {
        out.flush().unwrap();
        return;
    }
    for line in stdin.lock().lines() {
        let line = line.unwrap();
        if line.is_empty() {
            continue;
        }
        let f: Vec<&str> = line.split('\t').collect();
        let r = sub::dispatch(sub, &f);
        writeln!(out, "{}", r).unwrap();
    }
    out.flush().unwrap();
}
